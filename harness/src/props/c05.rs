//! C05 — PoW verification accepts exactly the simple cycles of the header-seeded graph.
//!
//! Oracle: an independent graph-theoretic reference per variant (own siphash-2-4,
//! own siphash-block, own endpoint derivation, degree + union-find acceptance test),
//! pinned against the repository's known-good 42-cycle vectors before use.
//!
//! Parts: "tuple" (grin verify vs reference on one nonce tuple, both directions),
//! "ser" (Proof encoding), "difficulty" (to_difficulty vs u128 recomputation),
//! "selector" is a "tuple" with a `via` field (context from create_pow_context).

use crate::engine::*;
use blake2_rfc::blake2b::blake2b;
use grin_core::core::BlockHeader;
use grin_core::global::{self, ChainTypes};
use grin_core::pow::{self, Difficulty, PoWContext, Proof, ProofOfWork};
use grin_core::ser;
use serde_json::{json, Value};
use std::collections::HashMap;
use std::sync::atomic::{AtomicU32, AtomicU64, AtomicUsize, Ordering};
use std::sync::{mpsc, Mutex, Once};
use std::time::Duration;

// ---------------------------------------------------------------------------
// variants
// ---------------------------------------------------------------------------

#[derive(Clone, Copy, PartialEq, Eq, Hash, Debug)]
enum Var {
	Atoo,
	Aroo,
	Arood,
	Aroom,
	Arooz,
}

const ALL_VARS: [Var; 5] = [Var::Atoo, Var::Aroo, Var::Arood, Var::Aroom, Var::Arooz];

impl Var {
	fn name(self) -> &'static str {
		match self {
			Var::Atoo => "cuckatoo",
			Var::Aroo => "cuckaroo",
			Var::Arood => "cuckarood",
			Var::Aroom => "cuckaroom",
			Var::Arooz => "cuckarooz",
		}
	}
	fn from_name(s: &str) -> Option<Var> {
		ALL_VARS.iter().copied().find(|v| v.name() == s)
	}
	/// number of bits of a node index (published definitions: cuckarood halves
	/// each partition, cuckarooz doubles the single node space)
	fn node_bits(self, eb: u8) -> u32 {
		match self {
			Var::Atoo | Var::Aroo | Var::Aroom => eb as u32,
			Var::Arood => eb as u32 - 1,
			Var::Arooz => eb as u32 + 1,
		}
	}
	fn directed(self) -> bool {
		matches!(self, Var::Arood | Var::Aroom)
	}
}

// ---------------------------------------------------------------------------
// reference primitives (written from the SipHash paper and Tromp's published
// cuckoo reference; none of grin's helpers are used)
// ---------------------------------------------------------------------------

#[derive(Clone, Copy)]
struct Sip {
	v0: u64,
	v1: u64,
	v2: u64,
	v3: u64,
}

impl Sip {
	fn new(k: &[u64; 4]) -> Sip {
		Sip { v0: k[0], v1: k[1], v2: k[2], v3: k[3] }
	}
	/// SipRound of the SipHash paper, with the rotation of v3 in the second
	/// half (21 in the paper) as a parameter (cuckarood uses 25).
	#[inline(always)]
	fn round(&mut self, rot: u32) {
		self.v0 = self.v0.wrapping_add(self.v1);
		self.v1 = self.v1.rotate_left(13);
		self.v1 ^= self.v0;
		self.v0 = self.v0.rotate_left(32);
		self.v2 = self.v2.wrapping_add(self.v3);
		self.v3 = self.v3.rotate_left(16);
		self.v3 ^= self.v2;
		self.v0 = self.v0.wrapping_add(self.v3);
		self.v3 = self.v3.rotate_left(rot);
		self.v3 ^= self.v0;
		self.v2 = self.v2.wrapping_add(self.v1);
		self.v1 = self.v1.rotate_left(17);
		self.v1 ^= self.v2;
		self.v2 = self.v2.rotate_left(32);
	}
	/// absorb one 64-bit word: 2 compression rounds, then the 0xff finalisation
	/// constant and 4 finalisation rounds (no length padding word)
	#[inline(always)]
	fn hash24(&mut self, m: u64, rot: u32) {
		self.v3 ^= m;
		self.round(rot);
		self.round(rot);
		self.v0 ^= m;
		self.v2 ^= 0xff;
		self.round(rot);
		self.round(rot);
		self.round(rot);
		self.round(rot);
	}
	#[inline(always)]
	fn xor_lanes(&self) -> u64 {
		self.v0 ^ self.v1 ^ self.v2 ^ self.v3
	}
}

fn ref_siphash24(keys: &[u64; 4], nonce: u64) -> u64 {
	let mut s = Sip::new(keys);
	s.hash24(nonce, 21);
	s.xor_lanes()
}

/// The 64 edge words of the block starting at `block_start` (a multiple of 64):
/// the state is carried from one nonce to the next; afterwards every entry but
/// the last is xored with the last one (`xor_all == false`, cuckaroo/cuckarood)
/// or every entry is xored with all later entries (`xor_all == true`, cuckaroom/z).
fn ref_block(keys: &[u64; 4], block_start: u64, rot: u32, xor_all: bool) -> [u64; 64] {
	let mut s = Sip::new(keys);
	let mut buf = [0u64; 64];
	for i in 0..64u64 {
		s.hash24(block_start + i, rot);
		buf[i as usize] = s.xor_lanes();
	}
	if xor_all {
		let mut acc = 0u64;
		for i in (0..64).rev() {
			let own = buf[i];
			buf[i] ^= acc;
			acc ^= own;
		}
	} else {
		let last = buf[63];
		for b in buf.iter_mut().take(63) {
			*b ^= last;
		}
	}
	buf
}

fn block_params(var: Var) -> (u32, bool) {
	match var {
		Var::Aroo => (21, false),
		Var::Arood => (25, false),
		Var::Aroom | Var::Arooz => (21, true),
		Var::Atoo => (21, false),
	}
}

fn mask_bits(b: u32) -> u64 {
	if b >= 64 {
		u64::MAX
	} else {
		(1u64 << b) - 1
	}
}

fn ends_from_word(var: Var, eb: u8, w: u64) -> (u64, u64) {
	let m = mask_bits(var.node_bits(eb));
	(w & m, (w >> 32) & m)
}

/// endpoints (u, v) of edge `nonce`
fn ref_ends(var: Var, eb: u8, keys: &[u64; 4], nonce: u64) -> (u64, u64) {
	match var {
		Var::Atoo => {
			let m = mask_bits(eb as u32);
			(ref_siphash24(keys, 2 * nonce) & m, ref_siphash24(keys, 2 * nonce + 1) & m)
		}
		_ => {
			let (rot, xa) = block_params(var);
			let b = ref_block(keys, nonce & !63, rot, xa);
			ends_from_word(var, eb, b[(nonce & 63) as usize])
		}
	}
}

/// endpoints of every edge 0..2^eb
fn ref_all_ends(var: Var, eb: u8, keys: &[u64; 4]) -> Vec<(u64, u64)> {
	let n = 1u64 << eb;
	let mut out = Vec::with_capacity(n as usize);
	match var {
		Var::Atoo => {
			for e in 0..n {
				out.push(ref_ends(var, eb, keys, e));
			}
		}
		_ => {
			let (rot, xa) = block_params(var);
			let mut start = 0;
			while start < n {
				let b = ref_block(keys, start, rot, xa);
				for i in 0..64.min(n - start) {
					out.push(ends_from_word(var, eb, b[i as usize]));
				}
				start += 64;
			}
		}
	}
	out
}

/// siphash keys: blake2b-256 of the header bytes read as four little-endian words
fn ref_keys(header: &[u8], hnonce: Option<u32>) -> [u64; 4] {
	let mut h = header.to_vec();
	if let Some(n) = hnonce {
		let l = h.len();
		h.truncate(l - 4);
		h.extend_from_slice(&n.to_le_bytes());
	}
	let d = blake2b(32, &[], &h);
	let b = d.as_bytes();
	let mut k = [0u64; 4];
	for i in 0..4 {
		let mut w = [0u8; 8];
		w.copy_from_slice(&b[8 * i..8 * i + 8]);
		k[i] = u64::from_le_bytes(w);
	}
	k
}

// ---------------------------------------------------------------------------
// reference acceptance test
// ---------------------------------------------------------------------------

#[derive(Clone, Copy, PartialEq, Eq, Hash, Debug)]
enum Cls {
	/// accepted: one simple cycle through all edges
	Cycle,
	Count,
	Range,
	Order,
	/// some node is touched an odd number of times (a parity shortcut can reject)
	OddDegree,
	/// every node touched exactly twice but direction / node-pair bit does not fit
	RoleMismatch,
	/// every node touched exactly twice, roles fit, more than one cycle
	DisjointCycles,
	/// every node touched an even number of times, some node >= 4 times, connected
	Touching,
	/// every node touched an even number of times, some node >= 4 times, disconnected
	EvenMulti,
}

impl Cls {
	fn name(self) -> &'static str {
		match self {
			Cls::Cycle => "cycle",
			Cls::Count => "wrong_count",
			Cls::Range => "out_of_range",
			Cls::Order => "not_ascending",
			Cls::OddDegree => "odd_degree",
			Cls::RoleMismatch => "deg2_role_mismatch",
			Cls::DisjointCycles => "disjoint_cycles",
			Cls::Touching => "touching_cycles",
			Cls::EvenMulti => "even_degree_disconnected",
		}
	}
	/// non-trivial negative: passes count, order, range and no endpoint-parity
	/// argument can reject it
	fn deep_negative(self) -> bool {
		matches!(self, Cls::RoleMismatch | Cls::DisjointCycles | Cls::Touching | Cls::EvenMulti)
	}
}

const SIDE: u64 = 1 << 62;
const ROLE_ANY: u8 = 2;
const MAXP: usize = 64;

/// ports of one edge: (node key, role). Roles: ANY (undirected), 0 = leaves the
/// node / low bit 0, 1 = enters the node / low bit 1.
#[inline(always)]
fn ports(var: Var, nonce: u64, u: u64, v: u64) -> [(u64, u8); 2] {
	match var {
		Var::Aroo => [(u, ROLE_ANY), (SIDE | v, ROLE_ANY)],
		Var::Arooz => [(u, ROLE_ANY), (v, ROLE_ANY)],
		// cuckatoo: nodes come in pairs {2k, 2k+1}; a cycle passes through a pair
		// entering at one member and leaving from the other
		Var::Atoo => [(u >> 1, (u & 1) as u8), (SIDE | (v >> 1), (v & 1) as u8)],
		// cuckarood: even edges point from U to V, odd edges from V to U
		Var::Arood => {
			if nonce & 1 == 0 {
				[(u, 0), (SIDE | v, 1)]
			} else {
				[(u, 1), (SIDE | v, 0)]
			}
		}
		// cuckaroom: edge points from u to v in one node space
		Var::Aroom => [(u, 0), (v, 1)],
	}
}

/// Graph-theoretic acceptance: exact count, strictly ascending, all nonces
/// below 2^eb, every touched node has exactly two ports with fitting roles,
/// and the edges are connected (⇒ one simple cycle through all of them).
fn ref_check(var: Var, eb: u8, proof_size: usize, nonces: &[u64], ends: &dyn Fn(u64) -> (u64, u64)) -> Cls {
	if nonces.len() != proof_size {
		return Cls::Count;
	}
	let n_edges = 1u128 << eb;
	if nonces.iter().any(|&n| (n as u128) >= n_edges) {
		return Cls::Range;
	}
	if nonces.windows(2).any(|w| w[0] >= w[1]) {
		return Cls::Order;
	}
	let n = nonces.len();
	assert!(n <= MAXP);
	let mut p = [(0u64, 0u8, 0u8); 2 * MAXP];
	for (i, &nc) in nonces.iter().enumerate() {
		let (u, v) = ends(nc);
		let q = ports(var, nc, u, v);
		p[2 * i] = (q[0].0, q[0].1, i as u8);
		p[2 * i + 1] = (q[1].0, q[1].1, i as u8);
	}
	let p = &mut p[..2 * n];
	p.sort_unstable();
	// union-find over edges
	let mut par = [0u8; MAXP];
	for (i, x) in par.iter_mut().enumerate().take(n) {
		*x = i as u8;
	}
	fn find(par: &mut [u8; MAXP], mut x: u8) -> u8 {
		while par[x as usize] != x {
			par[x as usize] = par[par[x as usize] as usize];
			x = par[x as usize];
		}
		x
	}
	let mut all_even = true;
	let mut all_two = true;
	let mut roles_ok = true;
	let mut i = 0;
	while i < p.len() {
		let mut j = i + 1;
		while j < p.len() && p[j].0 == p[i].0 {
			let (a, b) = (find(&mut par, p[i].2), find(&mut par, p[j].2));
			if a != b {
				par[a as usize] = b;
			}
			j += 1;
		}
		let deg = j - i;
		if deg % 2 == 1 {
			all_even = false;
		}
		if deg != 2 {
			all_two = false;
		} else {
			let (ra, rb) = (p[i].1, p[i + 1].1);
			let ok = (ra == ROLE_ANY && rb == ROLE_ANY) || (ra < 2 && rb < 2 && ra != rb);
			if !ok {
				roles_ok = false;
			}
		}
		i = j;
	}
	let mut comps = 0;
	for e in 0..n {
		if find(&mut par, e as u8) == e as u8 {
			comps += 1;
		}
	}
	if !all_even {
		return Cls::OddDegree;
	}
	if all_two {
		if !roles_ok {
			return Cls::RoleMismatch;
		}
		return if comps == 1 { Cls::Cycle } else { Cls::DisjointCycles };
	}
	if comps == 1 {
		Cls::Touching
	} else {
		Cls::EvenMulti
	}
}

// ---------------------------------------------------------------------------
// grin side
// ---------------------------------------------------------------------------

fn chain_of(name: &str) -> ChainTypes {
	match name {
		"main" => ChainTypes::Mainnet,
		"test" => ChainTypes::Testnet,
		"user" => ChainTypes::UserTesting,
		_ => ChainTypes::AutomatedTesting,
	}
}

/// chain type giving the requested proof size for directly built contexts
fn chain_for_size(ps: usize) -> Result<&'static str, Fail> {
	match ps {
		8 => Ok("auto"),
		42 => Ok("user"),
		_ => Err(Fail::new("harness-bad-case", format!("no chain type with proof size {}", ps))),
	}
}

fn build_ctx(var: Var, eb: u8, ps: usize) -> Result<Box<dyn PoWContext>, Fail> {
	let r = match var {
		Var::Atoo => pow::new_cuckatoo_ctx(eb, ps, 4),
		Var::Aroo => pow::new_cuckaroo_ctx(eb, ps),
		Var::Arood => pow::new_cuckarood_ctx(eb, ps),
		Var::Aroom => pow::new_cuckaroom_ctx(eb, ps),
		Var::Arooz => pow::new_cuckarooz_ctx(eb, ps),
	};
	r.map_err(|e| Fail::new("harness-ctx", format!("cannot build {} context: {}", var.name(), e)))
}

/// The variant the consensus rules name for (chain, height, edge_bits); None =
/// no context exists (everything must be refused).
fn rules_variant(chain: &str, height: u64, eb: u8) -> Option<Var> {
	const HALF_YEAR: u64 = 60 * 24 * 7 * 52 / 2; // one-minute blocks, 52-week year
	match chain {
		"main" | "test" => {
			if eb > 29 {
				return Some(Var::Atoo);
			}
			let era = if chain == "main" {
				height / HALF_YEAR
			} else if height < 185_040 {
				0
			} else if height < 298_080 {
				1
			} else if height < 552_960 {
				2
			} else if height < 642_240 {
				3
			} else {
				4
			};
			match era {
				0 => Some(Var::Aroo),
				1 => Some(Var::Arood),
				2 => Some(Var::Aroom),
				3 => Some(Var::Arooz),
				_ => None,
			}
		}
		_ => Some(Var::Atoo),
	}
}

#[derive(Clone, Debug)]
struct Via {
	chain: String,
	height: u64,
}

/// One seeded graph plus the grin context for it.
struct Bench {
	var: Option<Var>,
	eb: u8,
	ps: usize,
	hdr: Vec<u8>,
	hn: Option<u32>,
	keys: [u64; 4],
	via: Option<Via>,
	gctx: Option<Box<dyn PoWContext>>,
	all: Option<Vec<(u64, u64)>>,
}

#[derive(Debug, PartialEq)]
enum GrinOut {
	Accept,
	Reject(String),
}

/// Bulk loops execute tuples for which the shield predicts a non-terminating
/// verify() on a sacrificial thread until the first one really times out (the
/// abandoned thread keeps spinning, so the remaining predicted ones are only
/// counted). 0 = none timed out so far, 1 = one is being tried, 2 = confirmed.
static HANG_STATE: AtomicU32 = AtomicU32::new(0);

fn hang_timeout() -> Duration {
	Duration::from_millis(std::env::var("GV_C05_HANG_MS").ok().and_then(|s| s.parse().ok()).unwrap_or(8000))
}

/// true = caller may execute the predicted-hang tuple (and must call
/// `hang_release` afterwards); false = a hang is confirmed or being tried
/// (a try takes microseconds unless it is a real hang)
fn hang_acquire() -> bool {
	HANG_STATE.compare_exchange(0, 1, Ordering::SeqCst, Ordering::SeqCst).is_ok()
}

fn hang_release(timed_out: bool) {
	HANG_STATE.store(if timed_out { 2 } else { 0 }, Ordering::SeqCst);
}

/// Run `f` (a grin call) on a sacrificial thread; Err(sig verify-nonterminating)
/// if it does not return in time.
fn guarded<T: Send + 'static>(what: String, f: impl FnOnce() -> Result<T, String> + Send + 'static) -> Result<T, Fail> {
	let (tx, rx) = mpsc::channel();
	std::thread::Builder::new()
		.name("c05-guarded".into())
		.spawn(move || {
			let r = catch(f);
			let _ = tx.send(r);
		})
		.map_err(|e| Fail::new("harness-thread", e.to_string()))?;
	match rx.recv_timeout(hang_timeout()) {
		Ok(Ok(Ok(o))) => Ok(o),
		Ok(Ok(Err(s))) => Err(Fail::new("harness-ctx", s)),
		Ok(Err(f)) => Err(f),
		Err(_) => Err(Fail::new("verify-nonterminating", format!("did not return within {:?} (thread abandoned): {}", hang_timeout(), what))),
	}
}

impl Bench {
	/// the calling thread's chain type is set as a side effect
	fn new(var: Var, eb: u8, ps: usize, hdr: Vec<u8>, hn: Option<u32>) -> Result<Bench, Fail> {
		global::set_local_chain_type(chain_of(chain_for_size(ps)?));
		let mut g = build_ctx(var, eb, ps)?;
		g.set_header_nonce(hdr.clone(), hn, false).map_err(|e| Fail::new("harness-ctx", format!("set_header_nonce: {}", e)))?;
		let keys = ref_keys(&hdr, hn);
		Ok(Bench { var: Some(var), eb, ps, hdr, hn, keys, via: None, gctx: Some(g), all: None })
	}

	/// context obtained from the production selector
	fn new_via(via: Via, eb: u8, ps: usize, hdr: Vec<u8>, hn: Option<u32>) -> Result<Bench, Fail> {
		let ct = chain_of(&via.chain);
		global::set_local_chain_type(ct);
		ensure_h(global::proofsize() == ps, "proof size of chain type differs from case")?;
		let var = rules_variant(&via.chain, via.height, eb);
		let g = match catch(|| global::create_pow_context::<u64>(via.height, eb, ps, 4))? {
			Ok(mut g) => {
				g.set_header_nonce(hdr.clone(), hn, false).map_err(|e| Fail::new("harness-ctx", format!("set_header_nonce: {}", e)))?;
				Some(g)
			}
			Err(_) => None,
		};
		if var.is_some() != g.is_some() {
			return Err(Fail::new(
				"selector-context-existence",
				format!("chain {} height {} edge_bits {}: rules name {:?}, create_pow_context gave a context: {}", via.chain, via.height, eb, var.map(|v| v.name()), g.is_some()),
			));
		}
		let keys = ref_keys(&hdr, hn);
		Ok(Bench { var, eb, ps, hdr, hn, keys, via: Some(via), gctx: g, all: None })
	}

	fn with_all_ends(mut self) -> Bench {
		if let Some(v) = self.var {
			self.all = Some(ref_all_ends(v, self.eb, &self.keys));
		}
		self
	}

	fn ends(&self, nonce: u64) -> (u64, u64) {
		match &self.all {
			Some(a) if (nonce as usize) < a.len() => a[nonce as usize],
			_ => ref_ends(self.var.unwrap(), self.eb, &self.keys, nonce),
		}
	}

	fn ref_cls(&self, nonces: &[u64]) -> Cls {
		match self.var {
			Some(v) => ref_check(v, self.eb, self.ps, nonces, &|n| self.ends(n)),
			None => Cls::Count, // no context: nothing is acceptable
		}
	}

	fn case_json(&self, nonces: &[u64], must_reject: bool) -> Value {
		let mut j = json!({
			"variant": self.var.map(|v| v.name()).unwrap_or("none"),
			"edge_bits": self.eb,
			"proof_size": self.ps,
			"header": hex(&self.hdr),
			"header_nonce": self.hn,
			"nonces": nonces,
			"must_reject": must_reject,
		});
		if let Some(v) = &self.via {
			j["via"] = json!({"chain": v.chain, "height": v.height});
		}
		j
	}

	/// Safety shield (not an oracle): does the cycle-following loop of the
	/// published cuckarood verifier revisit an edge other than the first one?
	/// Returns (potential, exact): `potential` looks at the walk only, `exact`
	/// also requires the cheap early exits (balance, endpoint xor) to pass.
	fn arood_walk_repeats(&self, nonces: &[u64]) -> (bool, bool) {
		if self.var != Some(Var::Arood) || nonces.len() != self.ps {
			return (false, false);
		}
		if nonces.iter().any(|&n| (n as u128) >= (1u128 << self.eb)) || nonces.windows(2).any(|w| w[0] >= w[1]) {
			return (false, false);
		}
		let e: Vec<(u64, u64)> = nonces.iter().map(|&n| self.ends(n)).collect();
		let even: Vec<usize> = (0..nonces.len()).filter(|&i| nonces[i] & 1 == 0).collect();
		let odd: Vec<usize> = (0..nonces.len()).filter(|&i| nonces[i] & 1 == 1).collect();
		if even.is_empty() {
			return (false, false);
		}
		let first = even[0];
		let mut cur = first;
		let mut seen = vec![false; nonces.len()];
		let mut repeats = false;
		for _ in 0..=nonces.len() {
			let m: Vec<usize> = odd.iter().copied().filter(|&o| e[o].0 == e[cur].0).collect();
			if m.len() != 1 {
				break;
			}
			let m2: Vec<usize> = even.iter().copied().filter(|&x| e[x].1 == e[m[0]].1).collect();
			if m2.len() != 1 {
				break;
			}
			cur = m2[0];
			if cur == first {
				break;
			}
			if seen[cur] {
				repeats = true;
				break;
			}
			seen[cur] = true;
		}
		if !repeats {
			return (false, false);
		}
		let balanced = even.len() == odd.len();
		let x0 = e.iter().fold(0, |a, x| a ^ x.0);
		let x1 = e.iter().fold(0, |a, x| a ^ x.1);
		(true, balanced && x0 == 0 && x1 == 0)
	}

	/// grin's verdict through the context owned by this thread
	fn grin_direct(&self, proof: &Proof) -> Result<GrinOut, Fail> {
		let g = self.gctx.as_ref().unwrap();
		match catch(|| g.verify(proof))? {
			Ok(()) => Ok(GrinOut::Accept),
			Err(e) => Ok(GrinOut::Reject(e.to_string())),
		}
	}

	/// grin's verdict computed on a sacrificial thread with a time limit
	fn grin_guarded(&self, nonces: &[u64]) -> Result<GrinOut, Fail> {
		let (var, eb, ps, hdr, hn, via) = (self.var, self.eb, self.ps, self.hdr.clone(), self.hn, self.via.clone());
		let nv = nonces.to_vec();
		let vn = self.var.map(|v| v.name()).unwrap_or("none");
		let what = format!("verify() of {} edge_bits {} proof size {} nonces {:?}", vn, eb, ps, nonces);
		guarded(what, move || {
			let mut g = match &via {
				Some(v) => {
					global::set_local_chain_type(chain_of(&v.chain));
					global::create_pow_context::<u64>(v.height, eb, ps, 4).map_err(|e| e.to_string())?
				}
				None => {
					global::set_local_chain_type(chain_of(chain_for_size(ps).map_err(|f| f.msg)?));
					build_ctx(var.unwrap(), eb, ps).map_err(|f| f.msg)?
				}
			};
			g.set_header_nonce(hdr, hn, false).map_err(|e| e.to_string())?;
			let p = Proof { edge_bits: eb, nonces: nv };
			Ok::<GrinOut, String>(match g.verify(&p) {
				Ok(()) => GrinOut::Accept,
				Err(e) => GrinOut::Reject(e.to_string()),
			})
		})
		.map_err(|mut f| {
			if f.sig == "verify-nonterminating" {
				f.sig = format!("verify-nonterminating:{}", vn);
			}
			f
		})
	}

	/// Both-directions comparison on one tuple. `guard_all`: always use the
	/// sacrificial thread (replay); otherwise only when the shield fires.
	/// Returns the reference class (None when the call was not executed).
	fn compare(&self, proof: &mut Proof, nonces: &[u64], must_reject: bool, guard_all: bool, st: &Stats) -> Result<Option<Cls>, Fail> {
		let cls = self.ref_cls(nonces);
		let refacc = cls == Cls::Cycle;
		if must_reject && refacc {
			return Err(Fail::new("harness-oracle", format!("reference accepts a tuple built to be invalid: {:?}", nonces)));
		}
		let out = if self.gctx.is_none() {
			GrinOut::Reject("no context".into())
		} else {
			let (potential, exact) = self.arood_walk_repeats(nonces);
			if guard_all {
				self.grin_guarded(nonces)?
			} else if exact {
				st.predicted_hang.fetch_add(1, Ordering::Relaxed);
				if !hang_acquire() {
					st.skipped_hang.fetch_add(1, Ordering::Relaxed);
					return Ok(None);
				}
				let r = self.grin_guarded(nonces);
				hang_release(matches!(&r, Err(f) if f.sig.starts_with("verify-nonterminating")));
				r?
			} else if potential {
				self.grin_guarded(nonces)?
			} else {
				proof.edge_bits = self.eb;
				proof.nonces.clear();
				proof.nonces.extend_from_slice(nonces);
				self.grin_direct(proof)?
			}
		};
		let vn = self.var.map(|v| v.name()).unwrap_or("none");
		match (&out, refacc) {
			(GrinOut::Accept, false) => Err(Fail::new(
				format!("non-cycle-accepted:{}", vn),
				format!("{} edge_bits {}: verify accepted {:?} which the reference classifies as {}", vn, self.eb, nonces, cls.name()),
			)),
			(GrinOut::Reject(why), true) => Err(Fail::new(
				format!("true-cycle-rejected:{}", vn),
				format!("{} edge_bits {}: verify rejected ({}) the simple cycle {:?}", vn, self.eb, why, nonces),
			)),
			_ => Ok(Some(cls)),
		}
	}
}

fn ensure_h(c: bool, msg: &str) -> Result<(), Fail> {
	if c {
		Ok(())
	} else {
		Err(Fail::new("harness-bad-case", msg))
	}
}

fn hex(b: &[u8]) -> String {
	b.iter().map(|x| format!("{:02x}", x)).collect()
}

fn unhex(s: &str) -> Vec<u8> {
	(0..s.len() / 2).filter_map(|i| u8::from_str_radix(&s[2 * i..2 * i + 2], 16).ok()).collect()
}

// ---------------------------------------------------------------------------
// shared counters (bulk loops count locally and flush once)
// ---------------------------------------------------------------------------

#[derive(Default)]
struct Stats {
	predicted_hang: AtomicU64,
	skipped_hang: AtomicU64,
}

struct Failures {
	v: Mutex<Vec<(String, Fail, Value)>>,
}

impl Failures {
	fn new() -> Failures {
		Failures { v: Mutex::new(vec![]) }
	}
	/// keep at most 3 cases per signature
	fn push(&self, part: &str, f: Fail, case: Value) {
		let mut g = self.v.lock().unwrap();
		if g.iter().filter(|x| x.1.sig == f.sig).count() < 3 {
			g.push((part.to_string(), f, case));
		}
	}
	/// violations go to ctx.report; harness-side problems are returned
	fn report(&self, ctx: &Ctx) -> Vec<String> {
		let mut harness = vec![];
		for (part, f, case) in self.v.lock().unwrap().drain(..) {
			if f.sig.starts_with("harness-") {
				harness.push(format!("{}: {} (case {})", f.sig, f.msg, case));
			} else {
				ctx.report(&part, &f.sig, case, &f.msg);
			}
		}
		harness
	}
}

/// run `jobs` closures-by-index on `threads` threads
fn par_jobs(n_jobs: usize, threads: usize, f: &(dyn Fn(usize) + Sync)) {
	let next = AtomicUsize::new(0);
	std::thread::scope(|sc| {
		for _ in 0..threads.min(n_jobs.max(1)) {
			std::thread::Builder::new()
				.stack_size(32 << 20)
				.spawn_scoped(sc, || loop {
					let j = next.fetch_add(1, Ordering::SeqCst);
					if j >= n_jobs {
						break;
					}
					f(j);
				})
				.unwrap();
		}
	});
}

fn threads() -> usize {
	std::env::var("GV_THREADS").ok().and_then(|s| s.parse().ok()).unwrap_or(16)
}

// ---------------------------------------------------------------------------
// part 0: pin the reference against the repository's known-good vectors
// ---------------------------------------------------------------------------

mod vectors {
	pub static ATOO_29: (u32, [u64; 42]) = (
		20,
		[
			0x48a9e2, 0x9cf043, 0x155ca30, 0x18f4783, 0x248f86c, 0x2629a64, 0x5bad752, 0x72e3569, 0x93db760, 0x97d3b37, 0x9e05670, 0xa315d5a, 0xa3571a1,
			0xa48db46, 0xa7796b6, 0xac43611, 0xb64912f, 0xbb6c71e, 0xbcc8be1, 0xc38a43a, 0xd4faa99, 0xe018a66, 0xe37e49c, 0xfa975fa, 0x11786035, 0x1243b60a,
			0x12892da0, 0x141b5453, 0x1483c3a0, 0x1505525e, 0x1607352c, 0x16181fe3, 0x17e3a1da, 0x180b651e, 0x1899d678, 0x1931b0bb, 0x19606448, 0x1b041655,
			0x1b2c20ad, 0x1bd7a83c, 0x1c05d5b0, 0x1c0b9caa,
		],
	);
	pub static ATOO_31: (u32, [u64; 42]) = (
		99,
		[
			0x1128e07, 0xc181131, 0x110fad36, 0x1135ddee, 0x1669c7d3, 0x1931e6ea, 0x1c0005f3, 0x1dd6ecca, 0x1e29ce7e, 0x209736fc, 0x2692bf1a, 0x27b85aa9,
			0x29bb7693, 0x2dc2a047, 0x2e28650a, 0x2f381195, 0x350eb3f9, 0x3beed728, 0x3e861cbc, 0x41448cc1, 0x41f08f6d, 0x42fbc48a, 0x4383ab31, 0x4389c61f,
			0x4540a5ce, 0x49a17405, 0x50372ded, 0x512f0db0, 0x588b6288, 0x5a36aa46, 0x5c29e1fe, 0x6118ab16, 0x634705b5, 0x6633d190, 0x6683782f, 0x6728b6e1,
			0x67adfb45, 0x68ae2306, 0x6d60f5e1, 0x78af3c4f, 0x7dde51ab, 0x7faced21,
		],
	);
	pub static ATOO_32: (u32, [u64; 42]) = (
		17,
		[
			0x6da0bbf, 0xb175276, 0xf978803, 0x187bea71, 0x2074a1a6, 0x22270923, 0x2c70b560, 0x411d193f, 0x417c55d4, 0x4ebbda62, 0x5238584a, 0x545efac9,
			0x569e98e1, 0x57040b66, 0x5e16153e, 0x5e749d2e, 0x60b771c2, 0x68e63420, 0x74a2825e, 0x755790ac, 0x7d5e280f, 0x7fe4d148, 0x934b32c8, 0x94a0c441,
			0x9643fb25, 0x9718e41d, 0x982e6b8b, 0x9c47d21c, 0xa1f64135, 0xa90e209c, 0xabb868cb, 0xafef989e, 0xb0fc021e, 0xb20a7b56, 0xb5e59931, 0xb63e46b9,
			0xb8823ed5, 0xd11e966c, 0xd95e515d, 0xe0245efe, 0xf3edc79a, 0xfb8a29ce,
		],
	);
	pub static ATOO_33: (u32, [u64; 42]) = (
		79,
		[
			0x7aaf51f, 0x1434ebf3, 0x25bcee6e, 0x2fbddf0b, 0x322a87b6, 0x414f6a57, 0x701a84af, 0x7c432040, 0x822b8ee0, 0x83c9fed3, 0x89af26b2, 0xa5bc5d69,
			0xbe924630, 0xd3146f50, 0xd4e0f240, 0xe10e5bdc, 0x113400ccc, 0x114a917b2, 0x118482498, 0x11deca0f4, 0x1241c7ff0, 0x1245f8886, 0x12a6517e3,
			0x12c1a0edd, 0x142d988ee, 0x14637a89b, 0x15399e735, 0x1699c1cf9, 0x16e91ddd4, 0x17414f603, 0x18c07384c, 0x1993cdd97, 0x19d37ce5b, 0x1a43455c5,
			0x1aa312c2f, 0x1b20fe128, 0x1b7610376, 0x1bce4d125, 0x1c4834307, 0x1c7a2e5b2, 0x1da840832, 0x1e4e3da0c,
		],
	);

	pub static AROO_19_1: ([u64; 4], [u64; 42]) = (
		[0x23796193872092ea, 0xf1017d8a68c4b745, 0xd312bd53d2cd307b, 0x840acce5833ddc52],
		[
			0x45e9, 0x6a59, 0xf1ad, 0x10ef7, 0x129e8, 0x13e58, 0x17936, 0x19f7f, 0x208df, 0x23704, 0x24564, 0x27e64, 0x2b828, 0x2bb41, 0x2ffc0, 0x304c5, 0x31f2a,
			0x347de, 0x39686, 0x3ab6c, 0x429ad, 0x45254, 0x49200, 0x4f8f8, 0x5697f, 0x57ad1, 0x5dd47, 0x607f8, 0x66199, 0x686c7, 0x6d5f3, 0x6da7a, 0x6dbdf, 0x6f6bf,
			0x6ffbb, 0x7580e, 0x78594, 0x785ac, 0x78b1d, 0x7b80d, 0x7c11c, 0x7da35,
		],
	);
	pub static AROO_19_2: ([u64; 4], [u64; 42]) = (
		[0x6a54f2a35ab7e976, 0x68818717ff5cd30e, 0x9c14260c1bdbaf7, 0xea5b4cd5d0de3cf0],
		[
			0x2b1e, 0x67d3, 0xb041, 0xb289, 0xc6c3, 0xd31e, 0xd75c, 0x111d7, 0x145aa, 0x1712e, 0x1a3af, 0x1ecc5, 0x206b1, 0x2a55c, 0x2a9cd, 0x2b67e, 0x321d8, 0x35dde,
			0x3721e, 0x37ac0, 0x39edb, 0x3b80b, 0x3fc79, 0x4148b, 0x42a48, 0x44395, 0x4bbc9, 0x4f775, 0x515c5, 0x56f97, 0x5aa10, 0x5bc1b, 0x5c56d, 0x5d552, 0x60a2e,
			0x66646, 0x6c3aa, 0x70709, 0x71d13, 0x762a3, 0x79d88, 0x7e3ae,
		],
	);
	pub static AROOD_19: ([u64; 4], [u64; 42]) = (
		[0x89f81d7da5e674df, 0x7586b93105a5fd13, 0x6fbe212dd4e8c001, 0x8800c93a8431f938],
		[
			0xa00, 0x3ffb, 0xa474, 0xdc27, 0x182e6, 0x242cc, 0x24de4, 0x270a2, 0x28356, 0x2951f, 0x2a6ae, 0x2c889, 0x355c7, 0x3863b, 0x3bd7e, 0x3cdbc, 0x3ff95,
			0x430b6, 0x4ba1a, 0x4bd7e, 0x4c59f, 0x4f76d, 0x52064, 0x5378c, 0x540a3, 0x5af6b, 0x5b041, 0x5e9d3, 0x64ec7, 0x6564b, 0x66763, 0x66899, 0x66e80, 0x68e4e,
			0x69133, 0x6b20a, 0x6c2d7, 0x6fd3b, 0x79a8a, 0x79e29, 0x7ae52, 0x7defe,
		],
	);
	pub static AROOD_29: ([u64; 4], [u64; 42]) = (
		[0xe2f917b2d79492ed, 0xf51088eaaa3a07a0, 0xaf4d4288d36a4fa8, 0xc8cdfd30a54e0581],
		[
			0x1a9629, 0x1fb257, 0x5dc22a, 0xf3d0b0, 0x200c474, 0x24bd68f, 0x48ad104, 0x4a17170, 0x4ca9a41, 0x55f983f, 0x6076c91, 0x6256ffc, 0x63b60a1, 0x7fd5b16,
			0x985bff8, 0xaae71f3, 0xb71f7b4, 0xb989679, 0xc09b7b8, 0xd7601da, 0xd7ab1b6, 0xef1c727, 0xf1e702b, 0xfd6d961, 0xfdf0007, 0x10248134, 0x114657f6,
			0x11f52612, 0x12887251, 0x13596b4b, 0x15e8d831, 0x16b4c9e5, 0x17097420, 0x1718afca, 0x187fc40c, 0x19359788, 0x1b41d3f1, 0x1bea25a7, 0x1d28df0f,
			0x1ea6c4a0, 0x1f9bf79f, 0x1fa005c6,
		],
	);
	pub static AROOM_19: ([u64; 4], [u64; 42]) = (
		[0xdb7896f799c76dab, 0x352e8bf25df7a723, 0xf0aa29cbb1150ea6, 0x3206c2759f41cbd5],
		[
			0x0413c, 0x05121, 0x0546e, 0x1293a, 0x1dd27, 0x1e13e, 0x1e1d2, 0x22870, 0x24642, 0x24833, 0x29190, 0x2a732, 0x2ccf6, 0x302cf, 0x32d9a, 0x33700, 0x33a20,
			0x351d9, 0x3554b, 0x35a70, 0x376c1, 0x398c6, 0x3f404, 0x3ff0c, 0x48b26, 0x49a03, 0x4c555, 0x4dcda, 0x4dfcd, 0x4fbb6, 0x50275, 0x584a8, 0x5da0d, 0x5dbf1,
			0x6038f, 0x66540, 0x72bbd, 0x77323, 0x77424, 0x77a14, 0x77dc9, 0x7d9dc,
		],
	);
	pub static AROOM_29: ([u64; 4], [u64; 42]) = (
		[0xe4b4a751f2eac47d, 0x3115d47edfb69267, 0x87de84146d9d609e, 0x7deb20eab6d976a1],
		[
			0x04acd28, 0x29ccf71, 0x2a5572b, 0x2f31c2c, 0x2f60c37, 0x317fe1d, 0x32f6d4c, 0x3f51227, 0x45ee1dc, 0x535eeb8, 0x5e135d5, 0x6184e3d, 0x6b1b8e0, 0x6f857a9,
			0x8916a0f, 0x9beb5f8, 0xa3c8dc9, 0xa886d94, 0xaab6a57, 0xd6df8f8, 0xe4d630f, 0xe6ae422, 0xea2d658, 0xf7f369b, 0x10c465d8, 0x1130471e, 0x12049efb,
			0x12f43bc5, 0x15b493a6, 0x16899354, 0x1915dfca, 0x195c3dac, 0x19b09ab6, 0x1a1a8ed7, 0x1bba748f, 0x1bdbf777, 0x1c806542, 0x1d201b53, 0x1d9e6af7,
			0x1e99885e, 0x1f255834, 0x1f9c383b,
		],
	);
	pub static AROOZ_19: ([u64; 4], [u64; 42]) = (
		[0xd129f63fba4d9a85, 0x457dcb3666c5e09c, 0x045247a2e2ee75f7, 0x1a0f2e1bcb9d93ff],
		[
			0x33b6, 0x487b, 0x88b7, 0x10bf6, 0x15144, 0x17cb7, 0x22621, 0x2358e, 0x23775, 0x24fb3, 0x26b8a, 0x2876c, 0x2973e, 0x2f4ba, 0x30a62, 0x3a36b, 0x3ba5d,
			0x3be67, 0x3ec56, 0x43141, 0x4b9c5, 0x4fa06, 0x51a5c, 0x523e5, 0x53d08, 0x57d34, 0x5c2de, 0x60bba, 0x62509, 0x64d69, 0x6803f, 0x68af4, 0x6bd52, 0x6f041,
			0x6f900, 0x70051, 0x7097d, 0x735e8, 0x742c2, 0x79ae5, 0x7f64d, 0x7fd49,
		],
	);
	pub static AROOZ_29: ([u64; 4], [u64; 42]) = (
		[0x34bb4c75c929a2f5, 0x21df13263aa81235, 0x37d00939eae4be06, 0x473251cbf6941553],
		[
			0x49733a, 0x1d49107, 0x253d2ca, 0x5ad5e59, 0x5b671bd, 0x5dcae1c, 0x5f9a589, 0x65e9afc, 0x6a59a45, 0x7d9c6d3, 0x7df96e4, 0x8b26174, 0xa17b430, 0xa1c8c0d,
			0xa8a0327, 0xabd7402, 0xacb7c77, 0xb67524f, 0xc1c15a6, 0xc7e2c26, 0xc7f5d8d, 0xcae478a, 0xdea9229, 0xe1ab49e, 0xf57c7db, 0xfb4e8c5, 0xff314aa,
			0x110ccc12, 0x143e546f, 0x17007af8, 0x17140ea2, 0x173d7c5d, 0x175cd13f, 0x178b8880, 0x1801edc5, 0x18c8f56b, 0x18c8fe6d, 0x19f1a31a, 0x1bb028d1,
			0x1caaa65a, 0x1cf29bc2, 0x1dbde27d,
		],
	);
}

/// Returns Err (harness problem) when the reference disagrees with a vector
/// produced by the reference miners.
fn pin_reference(ctx: &Ctx) -> HResult<()> {
	use vectors::*;
	// published siphash outputs (repository unit test constants)
	let sh = [([1u64, 2, 3, 4], 10u64, 928382149599306901u64), ([1, 2, 3, 4], 111, 10524991083049122233), ([9, 7, 6, 7], 12, 1305683875471634734), ([9, 7, 6, 7], 10, 11589833042187638814)];
	for (k, n, want) in sh {
		if ref_siphash24(&k, n) != want {
			return Err(HarnessError(format!("reference siphash24({:?},{}) = {} != published {}", k, n, ref_siphash24(&k, n), want)));
		}
	}
	let sb = [([1u64, 2, 3, 4], 10u64, 1182162244994096396u64), ([1, 2, 3, 4], 123, 11303676240481718781), ([9, 7, 6, 7], 12, 4886136884237259030)];
	for (k, n, want) in sb {
		let got = ref_block(&k, n & !63, 21, false)[(n & 63) as usize];
		if got != want {
			return Err(HarnessError(format!("reference siphash block({:?},{}) = {} != published {}", k, n, got, want)));
		}
	}
	let raw: [(Var, u8, &([u64; 4], [u64; 42])); 8] = [
		(Var::Aroo, 19, &AROO_19_1),
		(Var::Aroo, 19, &AROO_19_2),
		(Var::Arood, 19, &AROOD_19),
		(Var::Arood, 29, &AROOD_29),
		(Var::Aroom, 19, &AROOM_19),
		(Var::Aroom, 29, &AROOM_29),
		(Var::Arooz, 19, &AROOZ_19),
		(Var::Arooz, 29, &AROOZ_29),
	];
	for (i, (var, eb, (keys, sol))) in raw.iter().enumerate() {
		let c = ref_check(*var, *eb, 42, &sol[..], &|n| ref_ends(*var, *eb, keys, n));
		if c != Cls::Cycle {
			return Err(HarnessError(format!("reference rejects ({}) the known-good {} {} vector — oracle is wrong", c.name(), var.name(), eb)));
		}
		// and it is discriminating: wrong keys, one nonce off
		let (okeys, _) = raw[(i + 1) % raw.len()].2;
		if ref_check(*var, *eb, 42, &sol[..], &|n| ref_ends(*var, *eb, okeys, n)) == Cls::Cycle {
			return Err(HarnessError(format!("reference accepts {} {} vector under foreign keys", var.name(), eb)));
		}
		let mut bad = sol.to_vec();
		bad[7] += 1;
		if ref_check(*var, *eb, 42, &bad, &|n| ref_ends(*var, *eb, keys, n)) == Cls::Cycle {
			return Err(HarnessError(format!("reference accepts a perturbed {} {} vector", var.name(), eb)));
		}
		ctx.ev.class("pinned_reference_vectors");
	}
	// cuckatoo vectors are header-derived: reference AND grin (direct context, Mainnet proof size 42)
	global::set_local_chain_type(ChainTypes::Mainnet);
	for (eb, (hn, sol)) in [(29u8, &ATOO_29), (31, &ATOO_31), (32, &ATOO_32), (33, &ATOO_33)] {
		let hdr = vec![0u8; 80];
		let keys = ref_keys(&hdr, Some(*hn));
		let c = ref_check(Var::Atoo, eb, 42, &sol[..], &|n| ref_ends(Var::Atoo, eb, &keys, n));
		if c != Cls::Cycle {
			return Err(HarnessError(format!("reference rejects ({}) the known-good cuckatoo {} vector — oracle is wrong", c.name(), eb)));
		}
		ctx.ev.class("pinned_reference_vectors");
	}
	global::set_local_chain_type(ChainTypes::AutomatedTesting);
	Ok(())
}

// ---------------------------------------------------------------------------
// part "tuple": one tuple, both directions
// ---------------------------------------------------------------------------

fn bench_from_case(case: &Value) -> Result<(Bench, Vec<u64>, bool), Fail> {
	let eb = case["edge_bits"].as_u64().unwrap_or(0) as u8;
	let ps = case["proof_size"].as_u64().unwrap_or(8) as usize;
	let hdr = unhex(case["header"].as_str().unwrap_or(""));
	let hn = case["header_nonce"].as_u64().map(|x| x as u32);
	let nonces: Vec<u64> = case["nonces"].as_array().map(|a| a.iter().filter_map(|x| x.as_u64()).collect()).unwrap_or_default();
	let must_reject = case["must_reject"].as_bool().unwrap_or(false);
	ensure_h(eb >= 2 && eb <= 40, "edge_bits out of harness range")?;
	let b = if case["via"].is_object() {
		let via = Via { chain: case["via"]["chain"].as_str().unwrap_or("main").to_string(), height: case["via"]["height"].as_u64().unwrap_or(0) };
		Bench::new_via(via, eb, ps, hdr, hn)?
	} else {
		let var = Var::from_name(case["variant"].as_str().unwrap_or("")).ok_or_else(|| Fail::new("harness-bad-case", "unknown variant"))?;
		Bench::new(var, eb, ps, hdr, hn)?
	};
	Ok((b, nonces, must_reject))
}

fn check_tuple(case: &Value) -> PResult {
	if let Some(len) = case["context_sized_for"].as_u64() {
		// a genuine cycle of another length than required, on a context sized for that length
		let var = Var::from_name(case["variant"].as_str().unwrap_or("")).ok_or_else(|| Fail::new("harness-bad-case", "unknown variant"))?;
		let eb = case["edge_bits"].as_u64().unwrap_or(0) as u8;
		let hdr = unhex(case["header"].as_str().unwrap_or(""));
		let nonces: Vec<u64> = case["nonces"].as_array().map(|a| a.iter().filter_map(|x| x.as_u64()).collect()).unwrap_or_default();
		global::set_local_chain_type(ChainTypes::Mainnet);
		let r = (|| -> PResult {
			let mut c = build_ctx(var, eb, len as usize)?;
			let r = c.set_header_nonce(hdr.clone(), None, false).and_then(|_| c.verify(&Proof { edge_bits: eb, nonces: nonces.clone() }));
			if r.is_ok() {
				return Err(Fail::new(format!("wrong-count-cycle-accepted:{}", var.name()), format!("{} context sized for {} nonces (required 42) accepts the {}-cycle {:?}", var.name(), len, nonces.len(), nonces)));
			}
			Ok(())
		})();
		global::set_local_chain_type(ChainTypes::AutomatedTesting);
		return r;
	}
	let (b, nonces, must_reject) = bench_from_case(case)?;
	let mut p = Proof { edge_bits: b.eb, nonces: vec![] };
	let st = Stats::default();
	let r = b.compare(&mut p, &nonces, must_reject, true, &st);
	global::set_local_chain_type(ChainTypes::AutomatedTesting);
	r.map(|_| ())
}

// ---------------------------------------------------------------------------
// the harness's own solver: trimming + DFS over the reference endpoints
// ---------------------------------------------------------------------------

/// half-end `s` (0 = u side, 1 = v side) of edge `e`: (key under which it can
/// be entered, key it leads to, node identity). None = not allowed (direction).
#[inline(always)]
fn half(var: Var, e: u64, s: u8, u: u64, v: u64) -> (Option<u64>, Option<u64>, u64) {
	match var {
		Var::Aroo => {
			let k = if s == 0 { u } else { SIDE | v };
			(Some(k), Some(k), k)
		}
		Var::Arooz => {
			let k = if s == 0 { u } else { v };
			(Some(k), Some(k), k)
		}
		Var::Atoo => {
			if s == 0 {
				(Some(u), Some(u ^ 1), u >> 1)
			} else {
				(Some(SIDE | v), Some(SIDE | (v ^ 1)), SIDE | (v >> 1))
			}
		}
		Var::Arood => {
			let node = if s == 0 { u } else { SIDE | v };
			// even edge: tail u (s=0), head v (s=1); odd edge: tail v (s=1), head u (s=0)
			let is_tail = (e & 1 == 0) == (s == 0);
			if is_tail {
				(Some(node), None, node)
			} else {
				(None, Some(node), node)
			}
		}
		Var::Aroom => {
			if s == 0 {
				(Some(u), None, u)
			} else {
				(None, Some(v), v)
			}
		}
	}
}

struct Solver<'a> {
	var: Var,
	ends: &'a [(u64, u64)],
	alive: Vec<bool>,
	/// key -> half-ends (2e+s) that can be entered under that key
	in_map: HashMap<u64, Vec<u32>>,
	budget: u64,
}

#[derive(Clone, Debug)]
struct CycleRec {
	nonces: Vec<u64>,
	nodes: Vec<u64>,
}

impl<'a> Solver<'a> {
	fn new(var: Var, ends: &'a [(u64, u64)]) -> Solver<'a> {
		let mut in_map: HashMap<u64, Vec<u32>> = HashMap::with_capacity(ends.len() * 2);
		for (e, &(u, v)) in ends.iter().enumerate() {
			for s in 0..2u8 {
				if let (Some(k), _, _) = half(var, e as u64, s, u, v) {
					in_map.entry(k).or_default().push(2 * e as u32 + s as u32);
				}
			}
		}
		Solver { var, ends, alive: vec![true; ends.len()], in_map, budget: 0 }
	}

	fn h(&self, he: u32) -> (Option<u64>, Option<u64>, u64) {
		let e = (he / 2) as usize;
		half(self.var, e as u64, (he & 1) as u8, self.ends[e].0, self.ends[e].1)
	}

	/// repeatedly drop edges that cannot lie on any cycle
	fn trim(&mut self) {
		let n = self.ends.len();
		loop {
			let mut cin: HashMap<u64, u32> = HashMap::new();
			let mut cout: HashMap<u64, u32> = HashMap::new();
			for e in 0..n {
				if !self.alive[e] {
					continue;
				}
				for s in 0..2 {
					let (ki, ko, _) = self.h(2 * e as u32 + s);
					if let Some(k) = ki {
						*cin.entry(k).or_insert(0) += 1;
					}
					if let Some(k) = ko {
						*cout.entry(k).or_insert(0) += 1;
					}
				}
			}
			let mut killed = false;
			for e in 0..n {
				if !self.alive[e] {
					continue;
				}
				let hs = [self.h(2 * e as u32), self.h(2 * e as u32 + 1)];
				let mut ok = true;
				for (ki, ko, _) in hs {
					if let Some(k) = ko {
						let own = hs.iter().filter(|x| x.0 == Some(k)).count() as u32;
						if cin.get(&k).copied().unwrap_or(0) <= own {
							ok = false;
						}
					}
					if let Some(k) = ki {
						let own = hs.iter().filter(|x| x.1 == Some(k)).count() as u32;
						if cout.get(&k).copied().unwrap_or(0) <= own {
							ok = false;
						}
					}
				}
				if !ok {
					self.alive[e] = false;
					killed = true;
				}
			}
			if !killed {
				break;
			}
		}
	}

	fn core_edges(&self) -> Vec<u64> {
		(0..self.ends.len()).filter(|&e| self.alive[e]).map(|e| e as u64).collect()
	}

	/// all simple cycles of length <= max_len among alive edges (each once)
	fn cycles(&mut self, max_len: usize, budget: u64) -> Vec<CycleRec> {
		let mut out = vec![];
		self.budget = budget;
		let n = self.ends.len();
		for e0 in 0..n {
			if !self.alive[e0] || self.budget == 0 {
				continue;
			}
			// undirected: enter through the u side only (fixes the orientation);
			// directed: enter through the tail
			let start = if self.var.directed() {
				if self.h(2 * e0 as u32).0.is_some() {
					2 * e0 as u32
				} else {
					2 * e0 as u32 + 1
				}
			} else {
				2 * e0 as u32
			};
			let mut path = vec![e0 as u32];
			let mut nodes = vec![self.h(start).2];
			self.dfs(e0 as u32, start, start ^ 1, max_len, &mut path, &mut nodes, &mut out);
		}
		out
	}

	fn dfs(&mut self, e0: u32, start: u32, exit: u32, max_len: usize, path: &mut Vec<u32>, nodes: &mut Vec<u64>, out: &mut Vec<CycleRec>) {
		if self.budget == 0 {
			return;
		}
		self.budget -= 1;
		let Some(k) = self.h(exit).1 else { return };
		let cands: Vec<u32> = self.in_map.get(&k).cloned().unwrap_or_default();
		for h2 in cands {
			let e2 = h2 / 2;
			if h2 == start {
				// closes; a 1-edge "cycle" needs exit == own other end, still recorded
				let mut nn: Vec<u64> = path.iter().map(|&x| x as u64).collect();
				nn.sort_unstable();
				out.push(CycleRec { nonces: nn, nodes: nodes.clone() });
				continue;
			}
			if e2 <= e0 || !self.alive[e2 as usize] || path.contains(&e2) || path.len() >= max_len {
				continue;
			}
			if self.h(h2 ^ 1).1.is_none() {
				continue;
			}
			let node = self.h(h2).2;
			if nodes.contains(&node) {
				continue;
			}
			path.push(e2);
			nodes.push(node);
			self.dfs(e0, start, h2 ^ 1, max_len, path, nodes, out);
			path.pop();
			nodes.pop();
		}
	}

	/// a simple open path of exactly `len` edges (ignores `alive`)
	fn open_path(&mut self, len: usize, start_edge: u64, budget: u64) -> Option<Vec<u64>> {
		self.budget = budget;
		let e0 = start_edge as u32;
		let start = if self.h(2 * e0).0.is_some() && self.h(2 * e0 + 1).1.is_some() { 2 * e0 } else { 2 * e0 + 1 };
		if self.h(start ^ 1).1.is_none() {
			return None;
		}
		let mut path = vec![e0];
		let mut nodes = vec![self.h(start).2];
		if self.path_dfs(start ^ 1, len, &mut path, &mut nodes) {
			let mut nn: Vec<u64> = path.iter().map(|&x| x as u64).collect();
			nn.sort_unstable();
			Some(nn)
		} else {
			None
		}
	}

	fn path_dfs(&mut self, exit: u32, len: usize, path: &mut Vec<u32>, nodes: &mut Vec<u64>) -> bool {
		if self.budget == 0 {
			return false;
		}
		self.budget -= 1;
		let end_node = self.h(exit).2;
		if path.len() == len {
			// open: the far node is new
			return !nodes.contains(&end_node);
		}
		let Some(k) = self.h(exit).1 else { return false };
		let cands: Vec<u32> = self.in_map.get(&k).cloned().unwrap_or_default();
		for h2 in cands {
			let e2 = h2 / 2;
			if path.contains(&e2) || self.h(h2 ^ 1).1.is_none() {
				continue;
			}
			let node = self.h(h2).2;
			if nodes.contains(&node) {
				continue;
			}
			path.push(e2);
			nodes.push(node);
			if self.path_dfs(h2 ^ 1, len, path, nodes) {
				return true;
			}
			path.pop();
			nodes.pop();
		}
		false
	}
}

/// deterministic small PRNG for derived choices (splitmix64)
struct Rng(u64);
impl Rng {
	fn next(&mut self) -> u64 {
		self.0 = self.0.wrapping_add(0x9E3779B97F4A7C15);
		let mut z = self.0;
		z = (z ^ (z >> 30)).wrapping_mul(0xBF58476D1CE4E5B9);
		z = (z ^ (z >> 27)).wrapping_mul(0x94D049BB133111EB);
		z ^ (z >> 31)
	}
	fn below(&mut self, n: u64) -> u64 {
		self.next() % n.max(1)
	}
}

/// tuples derived from one graph: (kind, nonces, must_reject)
fn derived_tuples(b: &Bench, len: usize, rng: &mut Rng, want_paths: bool) -> Vec<(&'static str, Vec<u64>, bool)> {
	let var = b.var.unwrap();
	let all = b.all.as_ref().unwrap();
	let n_edges = all.len() as u64;
	let mut out: Vec<(&'static str, Vec<u64>, bool)> = vec![];
	let mut sv = Solver::new(var, all);
	sv.trim();
	let cycles = sv.cycles(len, 200_000);
	let full: Vec<&CycleRec> = cycles.iter().filter(|c| c.nonces.len() == len).collect();
	// cycles of the graph one would get by letting the nonces run on to twice the edge range (same endpoint
	// function, same node mask) that use at least one nonce beyond the range: ascending, right count, closed
	// and simple — refused only by "within the graph's edge range"
	{
		let mut wide = all.clone();
		for nonce in n_edges..2 * n_edges {
			wide.push(ref_ends(var, b.eb, &b.keys, nonce));
		}
		let mut sw = Solver::new(var, &wide);
		sw.trim();
		for c in sw.cycles(len, 200_000).iter().filter(|c| c.nonces.len() == len && c.nonces.iter().any(|x| *x >= n_edges)).take(3) {
			out.push(("cycle_beyond_edge_range", c.nonces.clone(), true));
		}
	}
	for c in full.iter().take(3) {
		let cy = &c.nonces;
		out.push(("solver_cycle", cy.clone(), false));
		// one nonce replaced (neighbour value and a random value)
		for _ in 0..3 {
			let i = rng.below(len as u64) as usize;
			for cand in [cy[i] ^ 1, (cy[i] + 1) % n_edges, rng.below(n_edges), cy[i] ^ 64] {
				if cand < n_edges && !cy.contains(&cand) {
					let mut t = cy.clone();
					t[i] = cand;
					t.sort_unstable();
					out.push(("one_replaced", t, false));
				}
			}
		}
		// two swapped (not ascending)
		let i = rng.below(len as u64 - 1) as usize;
		let mut t = cy.clone();
		t.swap(i, i + 1);
		out.push(("swapped_adjacent", t, true));
		let j = rng.below(len as u64 - 1) as usize + 1;
		let mut t = cy.clone();
		t.swap(0, j);
		out.push(("swapped_far", t, true));
		let mut t = cy.clone();
		t.reverse();
		out.push(("descending", t, true));
		// duplicated nonce
		let mut t = cy.clone();
		t[i + 1] = t[i];
		out.push(("duplicate", t, true));
		let mut t = cy.clone();
		t[i] = t[i + 1];
		out.push(("duplicate", t, true));
		// out of range: same low bits, first value beyond, maximum
		let mut t = cy.clone();
		t[len - 1] += n_edges;
		out.push(("out_of_range_same_low_bits", t, true));
		let mut t = cy.clone();
		t[len - 1] = n_edges;
		out.push(("out_of_range_first", t, true));
		let mut t = cy.clone();
		t[len - 1] = u64::MAX;
		out.push(("out_of_range_max", t, true));
		let mut t = cy.clone();
		t[len - 1] |= 1 << 63;
		out.push(("out_of_range_high_bit", t, true));
		// wrong count
		let mut t = cy.clone();
		t.remove(i);
		out.push(("count_minus_one", t, true));
		let mut t = cy.clone();
		let extra = (0..n_edges).map(|_| rng.below(n_edges)).find(|x| !cy.contains(x)).unwrap_or(0);
		t.push(extra);
		t.sort_unstable();
		out.push(("count_plus_one", t, true));
		out.push(("empty", vec![], true));
	}
	// unions of two edge-disjoint shorter cycles with the full number of edges
	let mut pairs = 0;
	'outer: for i in 0..cycles.len() {
		for j in i + 1..cycles.len() {
			let (a, c) = (&cycles[i], &cycles[j]);
			if a.nonces.len() + c.nonces.len() != len || a.nonces.iter().any(|x| c.nonces.contains(x)) {
				continue;
			}
			let shared = a.nodes.iter().filter(|x| c.nodes.contains(x)).count();
			let mut t = a.nonces.clone();
			t.extend_from_slice(&c.nonces);
			t.sort_unstable();
			let kind = match (shared, a.nonces.len() == c.nonces.len()) {
				(0, true) => "two_disjoint_half_cycles",
				(0, false) => "two_disjoint_cycles_unequal",
				(1, _) => "figure_eight",
				_ => "two_cycles_sharing_nodes",
			};
			out.push((kind, t, false));
			pairs += 1;
			if pairs >= 8 {
				break 'outer;
			}
		}
	}
	if want_paths {
		for _ in 0..4 {
			let s = rng.below(n_edges);
			if let Some(p) = sv.open_path(len, s, 20_000) {
				out.push(("open_path", p, false));
				break;
			}
		}
		// random ascending tuple
		let mut t: Vec<u64> = vec![];
		while t.len() < len {
			let x = rng.below(n_edges);
			if !t.contains(&x) {
				t.push(x);
			}
		}
		t.sort_unstable();
		out.push(("random_ascending", t, false));
	}
	out
}

// ---------------------------------------------------------------------------
// part 2: exhaustive tiny graphs
// ---------------------------------------------------------------------------

/// all ascending `k`-subsets of 0..n whose smallest element is `first`
fn for_each_combo(n: usize, k: usize, first: usize, mut f: impl FnMut(&[u64])) {
	if first + k > n {
		return;
	}
	let mut idx: Vec<usize> = (first..first + k).collect();
	let mut cur: Vec<u64> = idx.iter().map(|&x| x as u64).collect();
	loop {
		f(&cur);
		// advance positions 1..k (position 0 is fixed)
		let mut i = k;
		loop {
			if i == 1 {
				return;
			}
			i -= 1;
			if idx[i] != i + n - k {
				break;
			}
		}
		idx[i] += 1;
		for j in i + 1..k {
			idx[j] = idx[j - 1] + 1;
		}
		for j in i..k {
			cur[j] = idx[j] as u64;
		}
	}
}

fn seed_header(seed: u64, k: u64) -> Vec<u8> {
	let mut h = Vec::with_capacity(16);
	h.extend_from_slice(&seed.to_le_bytes());
	h.extend_from_slice(&k.to_le_bytes());
	h
}

/// Does the graph contain (a true 8-cycle, an 8-subset in which every node is
/// touched an even number of times without being a cycle)? Computed with the
/// reference only; used to choose which graphs get the exhaustive treatment in
/// addition to the unscreened ones.
fn graph_is_interesting(var: Var, eb: u8, keys: &[u64; 4], ps: usize) -> (bool, bool) {
	let all = ref_all_ends(var, eb, keys);
	// undirected 2-core on node keys
	let mut alive = vec![true; all.len()];
	loop {
		let mut cnt: HashMap<u64, u32> = HashMap::new();
		for (e, &(u, v)) in all.iter().enumerate() {
			if alive[e] {
				for q in ports(var, e as u64, u, v) {
					*cnt.entry(q.0).or_insert(0) += 1;
				}
			}
		}
		let mut killed = false;
		for (e, &(u, v)) in all.iter().enumerate() {
			if alive[e] && ports(var, e as u64, u, v).iter().any(|q| cnt[&q.0] < 2) {
				alive[e] = false;
				killed = true;
			}
		}
		if !killed {
			break;
		}
	}
	let core: Vec<u64> = (0..all.len()).filter(|&e| alive[e]).map(|e| e as u64).collect();
	if core.len() < ps || core.len() > 20 {
		return (false, core.len() > 20);
	}
	let (mut cyc, mut deep) = (false, false);
	for first in 0..=(core.len() - ps) {
		for_each_combo(core.len(), ps, first, |t| {
			if !cyc {
				let nn: Vec<u64> = t.iter().map(|&i| core[i as usize]).collect();
				let c = ref_check(var, eb, ps, &nn, &|n| all[n as usize]);
				cyc |= c == Cls::Cycle;
				deep |= c.deep_negative();
			}
		});
	}
	(cyc, deep)
}

fn exhaustive(ctx: &Ctx, eb: u8, n_plain: u64, n_screened: u64, fails: &Failures, st: &Stats) {
	let ev = &ctx.ev;
	let n = 1usize << eb;
	let ps = 8usize;
	let base = ctx.derive_seed("exh", eb as u64);
	// choose header seeds: the first n_plain unscreened, then screened ones
	let mut graphs: Vec<(Var, u64, bool)> = vec![];
	for &var in &ALL_VARS {
		for s in 0..n_plain {
			graphs.push((var, s, false));
		}
	}
	let t_screen = std::time::Instant::now();
	if n_screened > 0 {
		let found: Mutex<Vec<(Var, u64, bool)>> = Mutex::new(vec![]);
		let cand_per_var = 60_000u64;
		let chunk = 250u64;
		let chunks = (cand_per_var / chunk) as usize;
		for &var in &ALL_VARS {
			// half of the screened graphs contain a true cycle, half a deep negative
			let have_c = AtomicU64::new(0);
			let have_d = AtomicU64::new(0);
			let (want_c, want_d) = ((n_screened + 1) / 2, n_screened / 2);
			par_jobs(chunks, threads(), &|c| {
				for s in (c as u64 * chunk)..((c as u64 + 1) * chunk) {
					if have_c.load(Ordering::Relaxed) >= want_c && have_d.load(Ordering::Relaxed) >= want_d {
						return;
					}
					let s = 1_000_000 + s;
					let keys = ref_keys(&seed_header(base, s), None);
					let (cyc, deep) = graph_is_interesting(var, eb, &keys, ps);
					if cyc {
						if have_c.fetch_add(1, Ordering::Relaxed) < want_c {
							found.lock().unwrap().push((var, s, true));
						}
					} else if deep && have_d.fetch_add(1, Ordering::Relaxed) < want_d {
						found.lock().unwrap().push((var, s, true));
					}
				}
			});
		}
		let mut f = found.into_inner().unwrap();
		f.sort_by_key(|x| (x.0.name(), x.1));
		graphs.extend(f);
	}
	let screening_s = t_screen.elapsed().as_secs_f64();
	// job = (graph, smallest nonce)
	let mut jobs = vec![];
	for first in 0..=(n - ps) {
		for g in &graphs {
			jobs.push((*g, first));
		}
	}
	let total = AtomicU64::new(0);
	par_jobs(jobs.len(), threads(), &|j| {
		let ((var, s, screened), first) = jobs[j];
		if ctx.stop.load(Ordering::SeqCst) {
			return;
		}
		let hdr = seed_header(base, s);
		let b = match Bench::new(var, eb, ps, hdr, None) {
			Ok(b) => b.with_all_ends(),
			Err(f) => {
				fails.push("tuple", f, json!({"variant": var.name(), "edge_bits": eb}));
				return;
			}
		};
		let mut proof = Proof { edge_bits: eb, nonces: Vec::with_capacity(ps) };
		let mut counts: HashMap<Cls, u64> = HashMap::new();
		let mut n_done = 0u64;
		for_each_combo(n, ps, first, |t| match b.compare(&mut proof, t, false, false, st) {
			Ok(Some(c)) => {
				*counts.entry(c).or_insert(0) += 1;
				n_done += 1;
				if c == Cls::Cycle {
					ev.sample("tuple-cycle", || b.case_json(t, false));
				}
			}
			Ok(None) => {}
			Err(f) => {
				fails.push("tuple", f, b.case_json(t, false));
			}
		});
		total.fetch_add(n_done, Ordering::Relaxed);
		ev.evals(n_done);
		if first == 0 {
			ev.class(if screened { "exhaustive_graphs_screened" } else { "exhaustive_graphs_unscreened" });
		}
		for (c, k) in counts {
			ev.class_n(&format!("exh{}_{}_{}", eb, var.name(), c.name()), k);
			if c == Cls::Cycle {
				ev.class_n("positives_true_cycles_accepted", k);
				ev.nontrivial(&(var, eb, "cycle"));
			} else if c.deep_negative() {
				ev.class_n("negatives_reaching_cycle_following", k);
				ev.nontrivial(&(var, eb, c.name()));
			} else {
				ev.class_n("negatives_cheap", k);
			}
		}
	});
	ev.extra(
		&format!("exhaustive_tuples_edge_bits{}", eb),
		json!({"screening_s": screening_s, "graphs_unscreened_per_variant": n_plain, "graphs_screened_total": graphs.len() as u64 - 5 * n_plain, "variants": 5,
			"tuples_per_graph": if eb == 4 {12870u64} else {10518300}, "compared": total.load(Ordering::Relaxed)}),
	);
}

// ---------------------------------------------------------------------------
// part 3: larger graphs, solver-found cycles and near misses
// ---------------------------------------------------------------------------

fn larger_graphs(ctx: &Ctx, per_variant: u64, fails: &Failures, st: &Stats) {
	let ev = &ctx.ev;
	// more small graphs (cheap, rich in odd shapes), fewer big ones
	let weights: [(u8, u64); 9] = [(6, 24), (7, 20), (8, 16), (9, 12), (10, 10), (11, 8), (12, 5), (13, 3), (14, 2)];
	let wsum: u64 = weights.iter().map(|w| w.1).sum();
	let mut jobs: Vec<(Var, u8, u64)> = vec![];
	for &var in &ALL_VARS {
		for (eb, w) in weights {
			let cnt = (per_variant * w + wsum - 1) / wsum;
			for k in 0..cnt {
				jobs.push((var, eb, k));
			}
		}
	}
	let base = ctx.derive_seed("large", 0);
	par_jobs(jobs.len(), threads(), &|j| {
		let (var, eb, k) = jobs[j];
		if ctx.stop.load(Ordering::SeqCst) {
			return;
		}
		let hdr = seed_header(base ^ ((eb as u64) << 56), k);
		// a third of the graphs set the key through the (header, nonce) form
		let hn = if k % 3 == 2 { Some((k as u32).wrapping_mul(2654435761)) } else { None };
		let b = match Bench::new(var, eb, 8, hdr, hn) {
			Ok(b) => b.with_all_ends(),
			Err(f) => {
				fails.push("tuple", f, json!({"variant": var.name(), "edge_bits": eb}));
				return;
			}
		};
		let mut rng = Rng(base ^ (j as u64).wrapping_mul(0x9E37_79B9));
		let tuples = derived_tuples(&b, 8, &mut rng, k % 4 == 0);
		let mut proof = Proof { edge_bits: eb, nonces: vec![] };
		ev.class("larger_graphs_built");
		for (kind, t, must_reject) in tuples {
			match b.compare(&mut proof, &t, must_reject, false, st) {
				Ok(Some(c)) => {
					ev.eval();
					ev.class(&format!("large_{}", kind));
					if c == Cls::Cycle {
						ev.class("positives_true_cycles_accepted");
						ev.class(&format!("large_cycle_{}", var.name()));
						ev.nontrivial(&(var, eb, "cycle"));
						if kind != "solver_cycle" {
							ev.class("large_mutant_is_another_cycle");
						}
						ev.sample("large-cycle", || b.case_json(&t, false));
					} else if c.deep_negative() {
						ev.class("negatives_reaching_cycle_following");
						ev.nontrivial(&(var, eb, kind));
						if matches!(kind, "figure_eight" | "two_disjoint_half_cycles" | "open_path") {
							ev.sample(&format!("large-{}", kind), || b.case_json(&t, must_reject));
						}
					} else {
						ev.class("negatives_cheap");
						ev.nontrivial(&(var, eb, kind));
					}
					if kind == "solver_cycle" && c != Cls::Cycle {
						fails.push("tuple", Fail::new("harness-solver", format!("solver produced a non-cycle ({})", c.name())), b.case_json(&t, false));
					}
				}
				Ok(None) => {}
				Err(f) => fails.push("tuple", f, b.case_json(&t, must_reject)),
			}
		}
	});
}

// ---------------------------------------------------------------------------
// part 4: difficulty
// ---------------------------------------------------------------------------

/// bit-by-bit packing: nonce i occupies bits i*eb .. (i+1)*eb of a little-endian
/// bit string padded with zero bits to a whole number of bytes
fn ref_pack(eb: u8, nonces: &[u64]) -> Vec<u8> {
	let w = eb as usize;
	let mut out = vec![0u8; (w * nonces.len() + 7) / 8];
	for (i, &n) in nonces.iter().enumerate() {
		for b in 0..w {
			if (n >> b) & 1 == 1 {
				let p = i * w + b;
				out[p / 8] |= 1 << (p % 8);
			}
		}
	}
	out
}

fn base_edge_bits(chain: &str) -> u8 {
	match chain {
		"auto" => 10,
		"user" => 15,
		_ => 24,
	}
}

fn proof_size_of(chain: &str) -> usize {
	if chain == "auto" {
		8
	} else {
		42
	}
}

/// graph weight from the consensus description: 2^(1 + edge_bits - base) * edge_bits,
/// with the 31-bit graph losing one "bit" of weight per week after the first year
fn ref_graph_weight(chain: &str, height: u64, eb: u8) -> u128 {
	const WEEK: u64 = 7 * 24 * 60;
	const YEAR: u64 = 52 * WEEK;
	let mut x = eb as u64;
	if eb == 31 && height >= YEAR {
		x = x.saturating_sub(1 + (height - YEAR) / WEEK);
	}
	(1u128 << (1 + eb as u32 - base_edge_bits(chain) as u32)) * x as u128
}

fn ref_difficulty_scaled(eb: u8, nonces: &[u64], scale: u128) -> u64 {
	let d = blake2b(32, &[], &ref_pack(eb, nonces));
	let mut w = [0u8; 8];
	w.copy_from_slice(&d.as_bytes()[..8]);
	let h = u64::from_be_bytes(w).max(1) as u128;
	let q = (scale << 64) / h;
	(q.min(u64::MAX as u128) as u64).max(1)
}

fn check_difficulty(ctx: &Ctx, case: &Value, counting: bool) -> PResult {
	let chain = case["chain"].as_str().unwrap_or("auto").to_string();
	let height = case["height"].as_u64().unwrap_or(0);
	let eb = case["edge_bits"].as_u64().unwrap_or(0) as u8;
	let sec = case["secondary_scaling"].as_u64().unwrap_or(1) as u32;
	let nonces: Vec<u64> = case["nonces"].as_array().map(|a| a.iter().filter_map(|x| x.as_u64()).collect()).unwrap_or_default();
	global::set_local_chain_type(chain_of(&chain));
	ensure_h(nonces.len() == global::proofsize() && (eb == 29 || eb >= base_edge_bits(&chain)) && eb <= 63, "difficulty case outside domain")?;
	let mk = |nonce: u64, td: u64| ProofOfWork {
		total_difficulty: Difficulty::from_num(td),
		secondary_scaling: sec,
		nonce,
		proof: Proof { edge_bits: eb, nonces: nonces.clone() },
	};
	let (p1, p2) = (mk(0, 1), mk(0xdead_beef, 77_777));
	let d1 = catch(|| p1.to_difficulty(height).to_num())?;
	let d1b = catch(|| p1.to_difficulty(height).to_num())?;
	let d2 = catch(|| p2.to_difficulty(height).to_num())?;
	let scale = if eb == 29 { sec as u128 } else { ref_graph_weight(&chain, height, eb) };
	let want = ref_difficulty_scaled(eb, &nonces, scale);
	let un = catch(|| p1.to_unscaled_difficulty().to_num())?;
	global::set_local_chain_type(ChainTypes::AutomatedTesting);
	if counting {
		ctx.ev.eval();
		ctx.ev.class("difficulty_cases");
		if want > 1 && want < u64::MAX {
			ctx.ev.nontrivial(&("difficulty", chain.clone(), eb, height / 10080));
		} else {
			ctx.ev.class("difficulty_clamped");
		}
	}
	crate::ensure!(d1 == d1b, "difficulty-nondeterministic", "same proof gave {} then {}", d1, d1b);
	crate::ensure!(d1 == d2, "difficulty-depends-on-non-proof-fields", "difficulty {} vs {} for identical packed nonces", d1, d2);
	crate::ensure!(d1 == want, "difficulty-mismatch", "chain {} height {} edge_bits {} scaling {}: to_difficulty {} != recomputed {}", chain, height, eb, sec, d1, want);
	let wun = ref_difficulty_scaled(eb, &nonces, 1);
	crate::ensure!(un == wun, "unscaled-difficulty-mismatch", "to_unscaled_difficulty {} != recomputed {}", un, wun);
	Ok(())
}

fn random_nonces(rng: &mut Rng, eb: u8, n: usize, sorted: bool) -> Vec<u64> {
	let m = mask_bits(eb as u32);
	let mut v: Vec<u64> = (0..n).map(|_| rng.next() & m).collect();
	match rng.below(8) {
		0 => v[0] = m,
		1 => v[n - 1] = 0,
		2 => v.iter_mut().for_each(|x| *x = m),
		_ => {}
	}
	if sorted {
		v.sort_unstable();
	}
	v
}

fn difficulty_part(ctx: &Ctx, fails: &Failures) {
	const WEEK: u64 = 10080;
	const YEAR: u64 = 52 * WEEK;
	let mut rng = Rng(ctx.derive_seed("difficulty", 0));
	let reps = ctx.n(6, 60);
	let mut cases = vec![];
	for chain in ["main", "auto", "test", "user"] {
		let ps = proof_size_of(chain);
		let mut heights = vec![0, 1, YEAR - 1, YEAR, YEAR + 1, YEAR + WEEK - 1, YEAR + WEEK, YEAR + 15 * WEEK, YEAR + 29 * WEEK, YEAR + 30 * WEEK - 1, YEAR + 30 * WEEK, YEAR + 31 * WEEK, 2 * YEAR, 5 * YEAR, 1 << 40];
		for _ in 0..4 {
			heights.push(rng.below(3 * YEAR));
		}
		for eb in (base_edge_bits(chain)..=63).chain(if base_edge_bits(chain) > 29 { vec![29u8] } else { vec![] }) {
			for &h in &heights {
				// the height only matters for 31 bits: fewer heights elsewhere
				if eb != 31 && h % 5 != 0 && h != YEAR + 30 * WEEK {
					continue;
				}
				for r in 0..reps {
					let sec = match (r + h) % 5 {
						0 => 0,
						1 => 1,
						2 => u32::MAX,
						_ => rng.next() as u32,
					};
					cases.push(json!({"chain": chain, "height": h, "edge_bits": eb, "secondary_scaling": sec, "nonces": random_nonces(&mut rng, eb, ps, true)}));
				}
			}
		}
	}
	for c in &cases {
		if let Ok(Err(f)) | Err(f) = catch(|| check_difficulty(ctx, c, true)) {
			fails.push("difficulty", f, c.clone());
		}
	}
	ctx.ev.sample("difficulty", || cases[cases.len() / 2].clone());
}

// ---------------------------------------------------------------------------
// part 5: Proof serialisation
// ---------------------------------------------------------------------------

fn read_proof(bytes: &[u8]) -> Result<Result<Proof, ser::Error>, Fail> {
	catch(|| ser::deserialize::<Proof, _>(&mut &bytes[..], ser::ProtocolVersion::local(), ser::DeserializationMode::default()))
}

fn check_ser(ctx: &Ctx, case: &Value, counting: bool) -> PResult {
	let r = check_ser_inner(ctx, case, counting);
	global::set_local_chain_type(ChainTypes::AutomatedTesting);
	r
}

fn check_ser_inner(ctx: &Ctx, case: &Value, counting: bool) -> PResult {
	let chain = case["chain"].as_str().unwrap_or("auto").to_string();
	let eb = case["edge_bits"].as_u64().unwrap_or(0) as u8;
	let nonces: Vec<u64> = case["nonces"].as_array().map(|a| a.iter().filter_map(|x| x.as_u64()).collect()).unwrap_or_default();
	global::set_local_chain_type(chain_of(&chain));
	let ps = global::proofsize();
	ensure_h(nonces.len() == ps && (1..=63).contains(&eb) && nonces.iter().all(|&n| n <= mask_bits(eb as u32)), "ser case outside domain")?;
	let proof = Proof { edge_bits: eb, nonces: nonces.clone() };
	let packed = ref_pack(eb, &nonces);
	let mut want = vec![eb];
	want.extend_from_slice(&packed);
	let total_bits = eb as usize * ps;
	let pad_bits = packed.len() * 8 - total_bits;
	if counting {
		ctx.ev.eval();
		ctx.ev.class("ser_cases");
	}
	let got_pack = catch(|| proof.pack_nonces())?;
	crate::ensure!(got_pack == packed, "pack-nonces-differ", "edge_bits {} proof size {}: pack_nonces {} != bitwise packing {}", eb, ps, hex(&got_pack), hex(&packed));
	let bytes = catch(|| ser::ser_vec(&proof, ser::ProtocolVersion::local()))?.map_err(|e| Fail::new("ser-write-error", format!("{:?}", e)))?;
	crate::ensure!(bytes == want, "ser-bytes-differ", "edge_bits {}: written {} != expected {}", eb, hex(&bytes), hex(&want));
	if packed.len() < 8 {
		// the decoder is not defined below 8 payload bytes (it refuses them)
		let r = read_proof(&bytes)?;
		crate::ensure!(r.is_err(), "ser-short-read-accepted", "edge_bits {}: {} payload bytes were read although the decoder documents a minimum of 8", eb, packed.len());
		if counting {
			ctx.ev.class("ser_below_decoder_minimum");
		}
		return Ok(());
	}
	let back = read_proof(&bytes)?.map_err(|e| Fail::new("roundtrip-read-failed", format!("edge_bits {} proof size {}: valid encoding refused: {:?}", eb, ps, e)))?;
	crate::ensure!(back.edge_bits == eb && back.nonces == nonces, "roundtrip-mismatch", "edge_bits {}: read back {:?} != {:?}", eb, back.nonces, nonces);
	let again = ser::ser_vec(&back, ser::ProtocolVersion::local()).map_err(|e| Fail::new("ser-write-error", format!("{:?}", e)))?;
	crate::ensure!(again == bytes, "roundtrip-bytes-differ", "edge_bits {}: re-encoding differs", eb);
	if counting {
		ctx.ev.nontrivial(&("ser", ps, eb, pad_bits));
	}
	// every padding bit, alone and all together
	let mut all = bytes.clone();
	for p in total_bits..packed.len() * 8 {
		let mut b = bytes.clone();
		b[1 + p / 8] ^= 1 << (p % 8);
		all[1 + p / 8] ^= 1 << (p % 8);
		let r = read_proof(&b)?;
		if counting {
			ctx.ev.class("ser_padding_bit_flips");
		}
		crate::ensure!(r.is_err(), "padding-bit-accepted", "edge_bits {} proof size {}: padding bit {} set and the proof was still read", eb, ps, p);
	}
	if pad_bits > 1 {
		crate::ensure!(read_proof(&all)?.is_err(), "padding-bit-accepted", "edge_bits {}: all padding bits set and the proof was still read", eb);
	}
	// data bits: flipped encodings decode to exactly the flipped nonce and re-encode identically
	for p in [0, total_bits / 2, total_bits - 1, eb as usize - 1, eb as usize, total_bits - eb as usize] {
		let mut b = bytes.clone();
		b[1 + p / 8] ^= 1 << (p % 8);
		let r = read_proof(&b)?.map_err(|e| Fail::new("roundtrip-read-failed", format!("edge_bits {}: encoding with data bit {} flipped refused: {:?}", eb, p, e)))?;
		let mut exp = nonces.clone();
		exp[p / eb as usize] ^= 1 << (p % eb as usize);
		crate::ensure!(r.nonces == exp, "roundtrip-mismatch", "edge_bits {}: data bit {} flipped decoded to {:?}, expected {:?}", eb, p, r.nonces, exp);
		let w = ser::ser_vec(&r, ser::ProtocolVersion::local()).map_err(|e| Fail::new("ser-write-error", format!("{:?}", e)))?;
		crate::ensure!(w == b, "roundtrip-bytes-differ", "edge_bits {}: data bit {} flipped does not re-encode identically", eb, p);
	}
	// truncation and bad edge_bits are refused, not panicking
	crate::ensure!(read_proof(&bytes[..bytes.len() - 1])?.is_err(), "truncated-accepted", "edge_bits {}: truncated encoding read", eb);
	for bad in [0u8, 64, 65, 128, 255] {
		let mut b = bytes.clone();
		b[0] = bad;
		b.extend_from_slice(&[0u8; 400]);
		crate::ensure!(read_proof(&b)?.is_err(), "bad-edge-bits-accepted", "edge_bits byte {} accepted", bad);
	}
	Ok(())
}

fn ser_part(ctx: &Ctx, fails: &Failures) {
	let mut rng = Rng(ctx.derive_seed("ser", 0));
	let reps = ctx.n(12, 200);
	let mut cases = vec![];
	for chain in ["auto", "main", "user"] {
		let ps = proof_size_of(chain);
		for eb in 1..=63u8 {
			for r in 0..reps {
				let mut nn = random_nonces(&mut rng, eb, ps, r % 2 == 0);
				if r == 0 {
					nn = vec![0; ps];
				}
				cases.push(json!({"chain": chain, "edge_bits": eb, "nonces": nn}));
			}
		}
	}
	for c in &cases {
		if let Ok(Err(f)) | Err(f) = catch(|| check_ser(ctx, c, true)) {
			fails.push("ser", f, c.clone());
		}
	}
	ctx.ev.sample("ser", || cases[cases.len() / 2 + 7].clone());
	ctx.ev.extra("ser_edge_bits_covered", json!({"proof_size_8": "8..=63 (1..=7 are below the decoder's 8-byte minimum: written, refused on read)", "proof_size_42": "2..=63 (1 below the minimum)"}));
}

// ---------------------------------------------------------------------------
// part 6: the production selector and verify_size
// ---------------------------------------------------------------------------

/// search header seeds until the solver finds a `len`-cycle of `var`
fn find_cycle(var: Var, eb: u8, len: usize, hdr_of: &(dyn Fn(u64) -> Vec<u8> + Sync), max_tries: u64) -> Option<(Vec<u8>, Vec<u64>)> {
	let hit: Mutex<Option<(u64, Vec<u8>, Vec<u64>)>> = Mutex::new(None);
	let chunk = 8u64;
	par_jobs((max_tries / chunk) as usize, threads(), &|c| {
		for k in (c as u64 * chunk)..((c as u64 + 1) * chunk) {
			if let Some((best, _, _)) = &*hit.lock().unwrap() {
				if *best < k {
					return;
				}
			}
			let hdr = hdr_of(k);
			let keys = ref_keys(&hdr, None);
			let all = ref_all_ends(var, eb, &keys);
			let mut sv = Solver::new(var, &all);
			sv.trim();
			let cy = sv.cycles(len, 400_000);
			if let Some(c) = cy.iter().find(|c| c.nonces.len() == len) {
				let mut g = hit.lock().unwrap();
				if g.as_ref().map(|x| x.0 > k).unwrap_or(true) {
					*g = Some((k, hdr, c.nonces.clone()));
				}
				return;
			}
		}
	});
	hit.into_inner().unwrap().map(|x| (x.1, x.2))
}

fn selector_part(ctx: &Ctx, fails: &Failures, st: &Stats) {
	let ev = &ctx.ev;
	const HY: u64 = 262_080;
	let eb = 11u8;
	let base = ctx.derive_seed("selector", 0);
	// one 42-cycle per cuckaroo-family variant (plain header bytes)
	let mut found: Vec<(Var, Vec<u8>, Vec<u64>)> = vec![];
	for (i, var) in [Var::Aroo, Var::Arood, Var::Aroom, Var::Arooz].into_iter().enumerate() {
		match find_cycle(var, eb, 42, &|k| seed_header(base.wrapping_add(i as u64), k), 4000) {
			Some((h, c)) => found.push((var, h, c)),
			None => ev.class("selector_no_42_cycle_found"),
		}
	}
	let mut proof = Proof { edge_bits: eb, nonces: vec![] };
	let main_heights: Vec<u64> = vec![0, 1, HY - 1, HY, HY + 1, 2 * HY - 1, 2 * HY, 3 * HY - 1, 3 * HY, 4 * HY - 1, 4 * HY, 4 * HY + 1, 10 * HY, ctx.derive_seed("h", 0) % (5 * HY), ctx.derive_seed("h", 1) % (5 * HY)];
	let test_heights: Vec<u64> = vec![0, 185_039, 185_040, 298_079, 298_080, 552_959, 552_960, 642_239, 642_240, 900_000];
	for (chain, heights) in [("main", &main_heights), ("test", &test_heights)] {
		for &h in heights.iter() {
			for (var, hdr, cy) in &found {
				let via = Via { chain: chain.to_string(), height: h };
				let b = match Bench::new_via(via, eb, 42, hdr.clone(), None) {
					Ok(b) => b,
					Err(f) => {
						fails.push("tuple", f, json!({"via": {"chain": chain, "height": h}, "edge_bits": eb, "proof_size": 42, "header": hex(hdr), "nonces": cy, "variant": var.name()}));
						continue;
					}
				};
				let mut tuples: Vec<(Vec<u64>, bool)> = vec![(cy.clone(), false)];
				let mut t = cy.clone();
				t[20] ^= 1;
				t.sort_unstable();
				t.dedup();
				if t.len() == 42 {
					tuples.push((t, false));
				}
				let mut t = cy.clone();
				t.pop();
				tuples.push((t, true));
				for (t, mr) in tuples {
					match b.compare(&mut proof, &t, mr, false, st) {
						Ok(Some(c)) => {
							ev.eval();
							ev.class("selector_comparisons");
							if c == Cls::Cycle {
								ev.class("selector_cycle_accepted_in_its_era");
								ev.class("positives_true_cycles_accepted");
								ev.nontrivial(&("selector", chain, b.var, "cycle"));
								ev.sample("selector", || b.case_json(&t, false));
							} else {
								ev.nontrivial(&("selector", chain, b.var, *var, c.name()));
							}
						}
						Ok(None) => {}
						Err(f) => fails.push("tuple", f, b.case_json(&t, mr)),
					}
				}
			}
		}
	}
	// a GENUINE simple cycle of another length than the required 42, handed to a context that was
	// sized for that length — which is how pow::verify_size builds its context (from the proof's
	// own nonce count): "exactly the required number of nonces" must refuse it under every variant,
	// whether the context comes from the selector or is built directly
	{
		global::set_local_chain_type(ChainTypes::Mainnet);
		for (i, var) in [Var::Aroo, Var::Arood, Var::Aroom, Var::Arooz, Var::Atoo].into_iter().enumerate() {
			for len in [2usize, 4, 6, 40, 44] {
				let ebw = if len <= 6 { 8u8 } else { eb };
				let Some((hdr, cy)) = find_cycle(var, ebw, len, &|k| seed_header(base.wrapping_add(100 + i as u64 * 10 + len as u64), k), 3000) else {
					ev.class(&format!("wrong_count_no_{}_cycle_found", len));
					continue;
				};
				let p = Proof { edge_bits: ebw, nonces: cy.clone() };
				let mut ctxs: Vec<(String, Box<dyn PoWContext>)> = vec![];
				match build_ctx(var, ebw, len) {
					Ok(c) => ctxs.push(("directly built".into(), c)),
					Err(f) => {
						fails.push("tuple", f, json!({"variant": var.name(), "edge_bits": ebw, "proof_size": len}));
						continue;
					}
				}
				if var != Var::Atoo {
					let height = HY / 2 + HY * i as u64;
					if rules_variant("main", height, ebw) == Some(var) {
						if let Ok(c) = global::create_pow_context::<u64>(height, ebw, len, 4) {
							ctxs.push((format!("create_pow_context(main, height {})", height), c));
						}
					}
				}
				for (how, mut c) in ctxs {
					let r = c.set_header_nonce(hdr.clone(), None, false).and_then(|_| c.verify(&p));
					ev.eval();
					ev.class("wrong_count_genuine_cycles_checked");
					ev.nontrivial(&("wrong-count", var, len, how.len()));
					if r.is_ok() {
						fails.push(
							"tuple",
							Fail::new(format!("wrong-count-cycle-accepted:{}", var.name()), format!("{} ({} context sized for {} nonces, required 42): a genuine {}-cycle {:?} is accepted", var.name(), how, len, len, cy)),
							json!({"variant": var.name(), "edge_bits": ebw, "proof_size": 42, "header": hex(&hdr), "nonces": cy, "must_reject": true, "context_sized_for": len}),
						);
					}
				}
			}
		}
	}
	// directly built contexts at proof size 42 (UserTesting): the same cycles plus
	// a cuckatoo one, with their near misses
	let mut direct = found.clone();
	if let Some((h, c)) = find_cycle(Var::Atoo, eb, 42, &|k| seed_header(base.wrapping_add(9), k), 4000) {
		direct.push((Var::Atoo, h, c));
	}
	let mut rng = Rng(base);
	for (var, hdr, cy) in &direct {
		let b = match Bench::new(*var, eb, 42, hdr.clone(), None) {
			Ok(b) => b.with_all_ends(),
			Err(f) => {
				fails.push("tuple", f, json!({"variant": var.name(), "edge_bits": eb, "proof_size": 42}));
				continue;
			}
		};
		let mut tuples = derived_tuples(&b, 42, &mut rng, true);
		tuples.push(("solver_cycle", cy.clone(), false));
		for (kind, t, mr) in tuples {
			match b.compare(&mut proof, &t, mr, false, st) {
				Ok(Some(c)) => {
					ev.eval();
					ev.class("direct42_comparisons");
					if c == Cls::Cycle {
						ev.class("positives_true_cycles_accepted");
						ev.class("direct42_cycle_accepted");
						ev.nontrivial(&(*var, eb, 42, "cycle"));
					} else {
						ev.nontrivial(&(*var, eb, 42, kind));
					}
				}
				Ok(None) => {}
				Err(f) => fails.push("tuple", f, b.case_json(&t, mr)),
			}
		}
	}
	// the cuckatoo 29-bit repository vector on a directly built context
	match Bench::new(Var::Atoo, 29, 42, vec![0u8; 80], Some(vectors::ATOO_29.0)) {
		Ok(b) => {
			let sol = vectors::ATOO_29.1.to_vec();
			let mut bad = sol.clone();
			bad[0] -= 1;
			for (t, mr) in [(sol, false), (bad, false)] {
				match b.compare(&mut proof, &t, mr, false, st) {
					Ok(Some(c)) => {
						ev.eval();
						ev.class("direct42_comparisons");
						if c == Cls::Cycle {
							ev.class("direct42_cycle_accepted");
							ev.nontrivial(&(Var::Atoo, 29, 42, "cycle"));
						}
					}
					Ok(None) => {}
					Err(f) => fails.push("tuple", f, b.case_json(&t, mr)),
				}
			}
		}
		Err(f) => fails.push("tuple", f, json!({"variant": "cuckatoo", "edge_bits": 29, "proof_size": 42})),
	}
	// edge_bits > 29: cuckatoo at every height (repository vectors, header + nonce form)
	for (ebv, (hn, sol)) in [(31u8, &vectors::ATOO_31), (32, &vectors::ATOO_32), (33, &vectors::ATOO_33), (29, &vectors::ATOO_29)] {
		for &h in &[0u64, HY, 3 * HY, 4 * HY, 9 * HY] {
			let via = Via { chain: "main".into(), height: h };
			let b = match Bench::new_via(via, ebv, 42, vec![0u8; 80], Some(*hn)) {
				Ok(b) => b,
				Err(f) => {
					fails.push("tuple", f, json!({"via": {"chain": "main", "height": h}, "edge_bits": ebv, "proof_size": 42, "header": hex(&[0u8; 80]), "header_nonce": hn, "nonces": sol.to_vec()}));
					continue;
				}
			};
			let mut bad = sol.to_vec();
			bad[0] -= 1;
			let mut oor = sol.to_vec();
			oor[41] += 1u64 << ebv;
			for (t, mr) in [(sol.to_vec(), false), (bad, false), (oor, true)] {
				match b.compare(&mut proof, &t, mr, false, st) {
					Ok(Some(c)) => {
						ev.eval();
						ev.class("selector_comparisons");
						if c == Cls::Cycle {
							ev.class("selector_cuckatoo_vector_accepted");
							ev.nontrivial(&("selector", "main", b.var, ebv, "cycle"));
						}
					}
					Ok(None) => {}
					Err(f) => fails.push("tuple", f, b.case_json(&t, mr)),
				}
			}
		}
	}
	global::set_local_chain_type(ChainTypes::AutomatedTesting);
}

/// pow::verify_size on real block headers: the siphash keys come from
/// blake2b(pre_pow bytes), the context from the selector.
fn check_verify_size(case: &Value) -> PResult {
	let r = check_verify_size_inner(case);
	global::set_local_chain_type(ChainTypes::AutomatedTesting);
	r
}

fn header_for(chain: &str, height: u64, pow_nonce: u64) -> BlockHeader {
	global::set_local_chain_type(chain_of(chain));
	let mut bh = BlockHeader::default();
	bh.height = height;
	bh.pow.nonce = pow_nonce;
	bh
}

fn check_verify_size_inner(case: &Value) -> PResult {
	let chain = case["chain"].as_str().unwrap_or("main").to_string();
	let height = case["height"].as_u64().unwrap_or(0);
	let pow_nonce = case["pow_nonce"].as_u64().unwrap_or(0);
	let eb = case["edge_bits"].as_u64().unwrap_or(0) as u8;
	let nonces: Vec<u64> = case["nonces"].as_array().map(|a| a.iter().filter_map(|x| x.as_u64()).collect()).unwrap_or_default();
	let mut bh = header_for(&chain, height, pow_nonce);
	let pre = bh.pre_pow();
	let keys = ref_keys(&pre, None);
	let ps = global::proofsize();
	let var = rules_variant(&chain, height, eb);
	let cls = match var {
		Some(v) => ref_check(v, eb, ps, &nonces, &|n| ref_ends(v, eb, &keys, n)),
		None => Cls::Count,
	};
	bh.pow.proof = Proof { edge_bits: eb, nonces: nonces.clone() };
	let (chain2, bh2) = (chain.clone(), bh.clone());
	let what = format!("pow::verify_size(header chain {} height {} pow.nonce {} edge_bits {} nonces {:?})", chain, height, pow_nonce, eb, nonces);
	let out = guarded(what, move || {
		global::set_local_chain_type(chain_of(&chain2));
		Ok(pow::verify_size(&bh2).map_err(|e| e.to_string()))
	})
	.map_err(|mut f| {
		if f.sig == "verify-nonterminating" {
			f.sig = format!("verify-nonterminating:{}", var.map(|v| v.name()).unwrap_or("none"));
		}
		f
	})?;
	let vn = var.map(|v| v.name()).unwrap_or("none");
	match (out, cls == Cls::Cycle) {
		(Ok(()), false) => Err(Fail::new(format!("non-cycle-accepted:{}", vn), format!("verify_size accepted a header whose proof the reference classifies as {} ({} height {})", cls.name(), chain, height))),
		(Err(e), true) => Err(Fail::new(format!("true-cycle-rejected:{}", vn), format!("verify_size rejected ({}) a header with a true {}-cycle ({} {} height {})", e, ps, vn, chain, height))),
		_ => Ok(()),
	}
}

fn verify_size_part(ctx: &Ctx, fails: &Failures) {
	let ev = &ctx.ev;
	const HY: u64 = 262_080;
	let plan: [(&str, u64, u8, usize); 5] = [("main", 5, 11, 42), ("main", HY + 5, 11, 42), ("main", 2 * HY + 5, 11, 42), ("main", 3 * HY + 5, 11, 42), ("auto", 7, 10, 8)];
	for (chain, height, eb, ps) in plan {
		let var = rules_variant(chain, height, eb).unwrap();
		let start = ctx.derive_seed("vs", height) % 1_000_000;
		// pre_pow() must be taken on a thread with the right chain type: precompute serially in chunks
		let hdr_of = |k: u64| {
			let bh = header_for(chain, height, start + k);
			let p = bh.pre_pow();
			p
		};
		let Some((pre, cy)) = find_cycle(var, eb, ps, &hdr_of, 4000) else {
			ev.class("verify_size_no_cycle_found");
			continue;
		};
		// recover pow nonce: last 8 bytes of pre_pow are the big-endian nonce
		let mut w = [0u8; 8];
		w.copy_from_slice(&pre[pre.len() - 8..]);
		let pow_nonce = u64::from_be_bytes(w);
		let mut variants: Vec<Vec<u64>> = vec![cy.clone()];
		let mut t = cy.clone();
		t[ps / 2] ^= 1;
		t.sort_unstable();
		t.dedup();
		variants.push(t);
		let mut t = cy.clone();
		t.swap(0, 1);
		variants.push(t);
		for (i, t) in variants.iter().enumerate() {
			let case = json!({"chain": chain, "height": height, "pow_nonce": pow_nonce, "edge_bits": eb, "nonces": t});
			ev.eval();
			ev.class("verify_size_headers");
			if i == 0 {
				ev.nontrivial(&("verify_size", chain, var, "cycle"));
				ev.class("positives_true_cycles_accepted");
				ev.sample("verify_size", || case.clone());
			}
			if let Ok(Err(f)) | Err(f) = catch(|| check_verify_size(&case)) {
				fails.push("verify_size", f, case);
			}
		}
	}
	global::set_local_chain_type(ChainTypes::AutomatedTesting);
}

/// Build a 42-nonce cuckarood proof whose cycle-following walk never returns
/// to its first edge (only attempted when tiny-graph tuples of that kind were
/// seen): edges e1 < e2 (even) and o1 (odd) with u(e1)=u(e2)=u(o1), v(o1)=v(e2),
/// filled up with 19 even and 20 odd edges that keep the endpoint xor at zero.
fn build_rho42(all: &[(u64, u64)], rng: &mut Rng) -> Option<Vec<u64>> {
	let n = all.len();
	let mut by_uv: HashMap<(u64, u64), Vec<usize>> = HashMap::new();
	for e in (0..n).step_by(2) {
		by_uv.entry(all[e]).or_default().push(e);
	}
	for o1 in (1..n).step_by(2) {
		let Some(e2s) = by_uv.get(&all[o1]) else { continue };
		for &e2 in e2s {
			let (x, y) = all[o1];
			for e1 in (0..e2).step_by(2) {
				if all[e1].0 != x || all[e1].1 == y {
					continue;
				}
				// fill: evens > e1 with v != y (and != e2), odds with u != x (and != o1)
				let evens: Vec<usize> = (e1 + 2..n).step_by(2).filter(|&e| e != e2 && all[e].1 != y && all[e].0 != x).collect();
				let odds: Vec<usize> = (1..n).step_by(2).filter(|&o| o != o1 && all[o].0 != x && all[o].1 != y).collect();
				if evens.len() < 40 || odds.len() < 40 {
					continue;
				}
				for _attempt in 0..200 {
					let mut pick: Vec<usize> = vec![];
					while pick.len() < 18 {
						let c = evens[rng.below(evens.len() as u64) as usize];
						if !pick.contains(&c) {
							pick.push(c);
						}
					}
					while pick.len() < 18 + 19 {
						let c = odds[rng.below(odds.len() as u64) as usize];
						if !pick.contains(&c) {
							pick.push(c);
						}
					}
					// required xor of the last (even, odd) pair
					let mut tu = x ^ x ^ x;
					let mut tv = all[e1].1;
					for &p in &pick {
						tu ^= all[p].0;
						tv ^= all[p].1;
					}
					let mut tab: HashMap<(u64, u64), usize> = HashMap::new();
					for &e in &evens {
						if !pick.contains(&e) {
							tab.insert(all[e], e);
						}
					}
					for &o in &odds {
						if pick.contains(&o) {
							continue;
						}
						if let Some(&e) = tab.get(&(tu ^ all[o].0, tv ^ all[o].1)) {
							let mut t: Vec<u64> = pick.iter().map(|&p| p as u64).collect();
							t.extend_from_slice(&[e1 as u64, e2 as u64, o1 as u64, e as u64, o as u64]);
							t.sort_unstable();
							return Some(t);
						}
					}
				}
			}
		}
	}
	None
}

fn rho42_part(ctx: &Ctx, fails: &Failures) {
	let ev = &ctx.ev;
	let (chain, height, eb) = ("main", 262_080 + 1234, 10u8);
	let start = ctx.derive_seed("rho", 0) % 1_000_000;
	let mut rng = Rng(ctx.derive_seed("rho", 1));
	for k in 0..400u64 {
		let bh = header_for(chain, height, start + k);
		let keys = ref_keys(&bh.pre_pow(), None);
		let all = ref_all_ends(Var::Arood, eb, &keys);
		if let Some(t) = build_rho42(&all, &mut rng) {
			let case = json!({"chain": chain, "height": height, "pow_nonce": start + k, "edge_bits": eb, "nonces": t});
			ev.eval();
			ev.class("verify_size_predicted_nonterminating_42");
			if let Ok(Err(f)) | Err(f) = catch(|| check_verify_size(&case)) {
				fails.push("verify_size", f, case);
			}
			break;
		}
	}
	global::set_local_chain_type(ChainTypes::AutomatedTesting);
}

// ---------------------------------------------------------------------------
// run / replay
// ---------------------------------------------------------------------------

static INIT: Once = Once::new();

fn init() {
	INIT.call_once(crate::world::init_global);
	crate::world::init_thread();
}

pub fn run(ctx: &Ctx) -> HResult<()> {
	init();
	let ev = &ctx.ev;
	ev.rule("reference = own siphash-2-4 / siphash-block + endpoint rules per variant + (every touched node has exactly two fitting ports and the edges are connected); pinned on the repository's 12 known-good 42-cycles. Tiny graphs: every ascending 8-tuple of every chosen graph (edge_bits 4; thorough also 5) compared in both directions; graphs are unscreened header seeds plus seeds screened by the reference for containing a cycle or deep negative. Larger graphs (edge_bits 6..14): cycles found by the harness's own trimming+DFS solver and near misses derived from them (one nonce replaced, swapped, duplicated, out of range, 7/9 nonces, unions of two shorter cycles disjoint or sharing a node, open paths). Non-trivial positive = enumeration/solver-found true cycle accepted by verify; non-trivial negative = tuple with right count, order and range in which every node is touched an even number of times (no endpoint-parity shortcut can reject it, so the cycle-following code decides); distinct by (variant, edge_bits, kind)");
	ev.assume("blake2b (blake2-rfc) is trusted; the SipHash round structure is taken from the SipHash paper and Tromp's cuckoo reference and pinned on published outputs");
	ev.assume("verify() calls for which the harness predicts non-termination run on an abandoned thread with a time limit; after the first confirmed one the remaining predicted ones are counted, not executed");
	pin_reference(ctx)?;

	let fails = Failures::new();
	let st = Stats::default();
	let only = std::env::var("GV_C05_ONLY").unwrap_or_default();
	let on = |p: &str| only.is_empty() || only.split(',').any(|x| x == p);
	let mut timing = serde_json::Map::new();
	let mut t0 = std::time::Instant::now();
	let mut lap = |name: &str| {
		timing.insert(name.to_string(), json!((t0.elapsed().as_secs_f64() * 100.0).round() / 100.0));
		t0 = std::time::Instant::now();
	};
	if on("ser") {
		ser_part(ctx, &fails);
		lap("ser");
	}
	if on("difficulty") {
		difficulty_part(ctx, &fails);
		lap("difficulty");
	}
	if on("selector") {
		selector_part(ctx, &fails, &st);
		verify_size_part(ctx, &fails);
		lap("selector+verify_size");
	}
	// the 42-nonce non-termination demonstration through pow::verify_size runs
	// beside the graph parts (it blocks for the time limit if verify hangs)
	std::thread::scope(|sc| {
		let demo = if on("selector") { Some(sc.spawn(|| rho42_part(ctx, &fails))) } else { None };
		if on("large") {
			larger_graphs(ctx, ctx.n(2000, 50_000), &fails, &st);
			lap("larger_graphs");
		}
		if on("exh") {
			exhaustive(ctx, 4, ctx.n(100, 3000), ctx.n(70, 2000), &fails, &st);
			if !ctx.quick() {
				exhaustive(ctx, 5, ctx.n(0, 1), ctx.n(0, 3), &fails, &st);
			}
			lap("exhaustive");
		}
		if let Some(h) = demo {
			let _ = h.join();
		}
	});
	let (pred, sk) = (st.predicted_hang.load(Ordering::Relaxed), st.skipped_hang.load(Ordering::Relaxed));
	if pred > 0 {
		ev.class_n("predicted_nonterminating_tuples", pred);
		ev.class_n("predicted_nonterminating_not_executed", sk);
	}
	ev.extra("part_wall_s", Value::Object(timing));
	let harness = fails.report(ctx);
	global::set_local_chain_type(ChainTypes::AutomatedTesting);
	if !harness.is_empty() {
		return Err(HarnessError(harness.join(" | ")));
	}
	Ok(())
}

pub fn replay(ctx: &Ctx, part: &str, case: &Value) -> PResult {
	init();
	match part {
		"tuple" => check_tuple(case),
		"ser" => check_ser(ctx, case, false),
		"difficulty" => check_difficulty(ctx, case, false),
		"verify_size" => check_verify_size(case),
		_ => Ok(()),
	}
}
