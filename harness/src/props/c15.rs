//! C15 — the committed unspent-output bitmap is independent of the path taken.

use crate::engine::*;
use crate::refmmr::{self, RefMmr};
use crate::world::gen::*;
use crate::world::*;
use crate::{ensure, fail};
use grin_chain::txhashset::{self, PMMRHandle, TxHashSet};
use grin_chain::types::Tip;
use grin_chain::ChainStore;
use grin_core::core::hash::{Hash, Hashed};
use grin_core::core::pmmr;
use grin_core::core::{Block, BlockHeader, CommitWrapper, Inputs, KernelFeatures, Output, OutputFeatures, TransactionBody, TxKernel};
use grin_core::pow::{Difficulty, Proof};
use grin_core::ser::ProtocolVersion;
use grin_util::secp::pedersen::{Commitment, RangeProof};
use proptest::prelude::*;
use serde_derive::{Deserialize, Serialize};
use serde_json::{json, Value};
use std::collections::BTreeMap;
use std::path::Path;
use std::sync::Arc;

// ------------------------------------------------------------------ reference

/// root of the bitmap accumulator computed from scratch from a set of unspent
/// leaf indices: 1024-bit chunks 0..=chunk(max idx), each serialized as 128
/// bytes (most significant bit first), bagged as an MMR by the definition
pub fn ref_bitmap_root(unspent: impl Iterator<Item = u64>) -> refmmr::H32 {
	let idx: Vec<u64> = unspent.collect();
	let Some(max) = idx.iter().max().copied() else {
		return [0u8; 32];
	};
	let n_chunks = (max / 1024 + 1) as usize;
	let mut chunks = vec![vec![0u8; 128]; n_chunks];
	for i in idx {
		let c = (i / 1024) as usize;
		let b = (i % 1024) as usize;
		chunks[c][b / 8] |= 0x80 >> (b % 8);
	}
	RefMmr::build(&chunks).root()
}

fn h(x: &refmmr::H32) -> Hash {
	Hash::from_vec(&x[..])
}

// ------------------------------------------------------------------ part "ext": extension level, many outputs

#[derive(Clone, Debug, Serialize, Deserialize)]
pub enum SpendPat {
	/// oldest unspent outputs
	Oldest(u16),
	/// outputs around a chunk boundary (1023/1024/2047/2048 …)
	Boundary(u8),
	/// everything unspent in one chunk
	WholeChunk(u8),
	/// outputs of the last (partial) chunk
	Last(u16),
	/// scattered picks
	Picks(Vec<u16>),
	/// everything from the start of chunk k to the end (leaves trailing all-zero chunks,
	/// so the next outputs land after a gap)
	AllFrom(u8),
	None,
}

#[derive(Clone, Debug, Serialize, Deserialize)]
pub enum EOp {
	/// apply a block creating `n_out` outputs and spending by pattern
	Apply { n_out: u16, spend: SpendPat },
	/// rewind `k` blocks (and continue from there: the rewound blocks are gone)
	Rewind { k: u8 },
	Reopen,
}

#[derive(Clone, Debug, Serialize, Deserialize)]
pub struct ECase {
	pub salt: u32,
	pub ops: Vec<EOp>,
}

fn spend_pat() -> impl Strategy<Value = SpendPat> {
	prop_oneof![
		3 => (1u16..400).prop_map(SpendPat::Oldest),
		3 => (0u8..8).prop_map(SpendPat::Boundary),
		2 => (0u8..6).prop_map(SpendPat::WholeChunk),
		3 => (1u16..300).prop_map(SpendPat::Last),
		3 => prop::collection::vec(any::<u16>(), 1..40).prop_map(SpendPat::Picks),
		3 => (0u8..6).prop_map(SpendPat::AllFrom),
		2 => Just(SpendPat::None),
	]
}

pub fn ecase() -> impl Strategy<Value = ECase> {
	(
		any::<u32>(),
		prop::collection::vec(
			prop_oneof![
				12 => (prop_oneof![3 => 1u16..60, 3 => 200u16..700, 1 => Just(1024u16), 1 => Just(1023u16)], spend_pat()).prop_map(|(n_out, spend)| EOp::Apply { n_out, spend }),
				4 => (1u8..4).prop_map(|k| EOp::Rewind { k }),
				1 => Just(EOp::Reopen),
			],
			4..16,
		),
	)
		.prop_map(|(salt, ops)| ECase { salt, ops })
}

struct Low {
	dir: std::path::PathBuf,
	store: Arc<ChainStore>,
	txhashset: TxHashSet,
	header_pmmr: PMMRHandle<BlockHeader>,
}

fn open_low(dir: &Path) -> Result<Low, String> {
	let store = Arc::new(ChainStore::new(&dir.to_string_lossy(), None).map_err(|e| format!("{:?}", e))?);
	let txhashset = TxHashSet::open(dir.to_string_lossy().to_string(), store.clone(), None).map_err(|e| format!("{:?}", e))?;
	let header_pmmr = PMMRHandle::new(dir.join("header").join("header_head"), false, ProtocolVersion(1), None).map_err(|e| format!("{:?}", e))?;
	Ok(Low {
		dir: dir.to_path_buf(),
		store,
		txhashset,
		header_pmmr,
	})
}

fn synth_commit(salt: u32, n: u64) -> Commitment {
	let x = refmmr::blake(&[b"c15-commit", &salt.to_be_bytes(), &n.to_be_bytes()]);
	let mut v = vec![0x08 + (x[0] & 1)];
	v.extend_from_slice(&x[..32]);
	Commitment::from_vec(v)
}

fn dummy_proof() -> RangeProof {
	RangeProof {
		proof: [0u8; grin_util::secp::constants::MAX_PROOF_SIZE],
		plen: grin_util::secp::constants::MAX_PROOF_SIZE,
	}
}

/// model of one synthetic block
#[derive(Clone)]
struct MBlock {
	header: BlockHeader,
	/// unspent leaf indices after this block
	unspent: BTreeMap<u64, Commitment>,
	n_outputs_total: u64,
}

pub fn ext_case(ctx: &Ctx, c: &ECase, counting: bool) -> PResult {
	init_thread();
	// Synthetic blocks of up to 1024 outputs must be readable back from the
	// database during rewind; the body reader bounds the counts by the block
	// weight limit, which is 250 on AutomatedTesting (11 outputs). Use the
	// mainnet limits for this part (thread-local; nothing here validates PoW).
	grin_core::global::set_local_chain_type(grin_core::global::ChainTypes::Mainnet);
	let r = ext_case_inner(ctx, c, counting);
	grin_core::global::set_local_chain_type(grin_core::global::ChainTypes::AutomatedTesting);
	r
}

fn ext_case_inner(ctx: &Ctx, c: &ECase, counting: bool) -> PResult {
	let ev = &ctx.ev;
	let dir = ctx.scratch_dir("c15e");
	// let the chain create the genesis state, then drive the unit-of-work API directly
	{
		let cb = ChainBox::open(&dir).map_err(|e| Fail::new("init-fresh", e))?;
		let mut cb = cb;
		cb.close();
		std::mem::forget(cb);
	}
	let mut low = open_low(&dir).map_err(|e| Fail::new("harness:open-low", e))?;
	let genesis = genesis_block();
	let mut chain: Vec<MBlock> = vec![MBlock {
		header: genesis.header.clone(),
		unspent: BTreeMap::new(),
		n_outputs_total: 0,
	}];
	let mut counter = 0u64;
	let (mut max_chunks, mut crossed_back, mut reopened) = (0u64, false, false);
	let mut gap = false;
	let check = |low: &Low, m: &MBlock, when: &str| -> PResult {
		let roots = low.txhashset.roots().map_err(|e| Fail::new("roots-err", format!("{:?}", e)))?;
		let want = h(&ref_bitmap_root(m.unspent.keys().cloned()));
		ensure!(
			roots.output_roots.bitmap_root == want,
			"bitmap-root-differs-from-scratch",
			"{}: bitmap root {:?} != root computed from scratch over the {} unspent outputs ({:?}); outputs ever {}, chunks {}",
			when,
			roots.output_roots.bitmap_root,
			m.unspent.len(),
			want,
			m.n_outputs_total,
			m.unspent.keys().max().map(|x| x / 1024 + 1).unwrap_or(0)
		);
		Ok(())
	};
	for (i, op) in c.ops.iter().enumerate() {
		match op {
			EOp::Apply { n_out, spend } => {
				let prev = chain.last().unwrap().clone();
				let total = prev.n_outputs_total;
				// choose spends among the currently unspent indices
				let keys: Vec<u64> = prev.unspent.keys().cloned().collect();
				let mut spend_idx: Vec<u64> = match spend {
					SpendPat::None => vec![],
					SpendPat::Oldest(n) => keys.iter().take(*n as usize).cloned().collect(),
					SpendPat::Last(n) => keys.iter().rev().take(*n as usize).cloned().collect(),
					SpendPat::WholeChunk(k) => {
						let nch = total / 1024 + 1;
						let ch = *k as u64 % nch;
						keys.iter().filter(|x| **x / 1024 == ch).cloned().collect()
					}
					SpendPat::Boundary(k) => {
						let nb = (total / 1024).max(1);
						let b = (1 + *k as u64 % nb) * 1024;
						keys.iter().filter(|x| **x + 3 >= b && **x < b + 3).cloned().collect()
					}
					SpendPat::Picks(p) => p.iter().filter_map(|x| pick(&keys, *x).cloned()).collect(),
					SpendPat::AllFrom(k) => {
						let nch = total / 1024 + 1;
						let from = (*k as u64 % nch) * 1024;
						keys.iter().filter(|x| **x >= from).cloned().collect()
					}
				};
				spend_idx.sort();
				spend_idx.dedup();
				let inputs: Vec<CommitWrapper> = spend_idx.iter().map(|i| CommitWrapper::from(prev.unspent[i])).collect();
				let outputs: Vec<Output> = (0..*n_out as u64)
					.map(|_| {
						counter += 1;
						Output::new(OutputFeatures::Plain, synth_commit(c.salt, counter), dummy_proof())
					})
					.collect();
				// properly signed kernel: TxHashSet::open verifies the first kernel of the
				// kernel MMR to detect the protocol version of the data file
				let kernels: Vec<TxKernel> = vec![sign_kernel(KernelFeatures::Coinbase, &scalar_from(format!("c15k{}-{}", c.salt, counter).as_bytes()))];
				let body = TransactionBody::init(Inputs::CommitOnly(inputs), &outputs, &kernels, false).map_err(|e| Fail::new("harness:body", format!("{:?}", e)))?;
				let height = prev.header.height + 1;
				let mut header = BlockHeader::default();
				header.height = height;
				header.version = grin_core::consensus::header_version(height);
				header.prev_hash = prev.header.hash();
				header.timestamp = prev.header.timestamp + chrono::Duration::seconds(60);
				header.pow.total_difficulty = prev.header.pow.total_difficulty + Difficulty::from_num(1);
				let hx = refmmr::blake(&[b"c15-pow", &c.salt.to_be_bytes(), &counter.to_be_bytes(), &(i as u64).to_be_bytes()]);
				// unique pseudo proof (the header hash is the hash of the packed nonces)
				header.pow.proof = Proof {
					edge_bits: 29,
					nonces: (0..grin_core::global::proofsize())
						.map(|k| {
							let y = refmmr::blake(&[&hx[..], &(k as u64).to_be_bytes()]);
							u64::from_be_bytes([0, 0, 0, 0, y[0], y[1], y[2], y[3]]) & ((1 << 29) - 1)
						})
						.collect(),
				};
				let mut b = Block::with_header(header);
				b.body = body;
				// one unit of work, like pipe::process_block without the validation
				let mut batch = low.store.batch().map_err(|e| Fail::new("harness:batch", format!("{:?}", e)))?;
				let mut got: Option<((u64, u64, u64), Hash)> = None;
				let r = txhashset::extending(&mut low.header_pmmr, &mut low.txhashset, &mut batch, |ext, batch| {
					ext.extension.apply_block(&b, ext.header_extension, batch)?;
					got = Some((ext.extension.sizes(), ext.extension.roots()?.output_roots.bitmap_root));
					Ok(())
				});
				if let Err(e) = r {
					fail!("apply-block-failed", "op {}: applying a synthetic block (h={}, {} outputs, {} spends) failed: {:?}", i, height, n_out, spend_idx.len(), e);
				}
				let (sizes, ext_root) = got.unwrap();
				b.header.output_mmr_size = sizes.0;
				b.header.kernel_mmr_size = sizes.2;
				// the database copy only serves rewind (which reads the output commitments):
				// store it with 1-byte proofs so that a synthetic 1000-output block does not
				// exceed the LMDB headroom a real block never exceeds
				let mut stored = b.clone();
				for o in stored.body.outputs.iter_mut() {
					o.proof.plen = 1;
				}
				batch.save_block(&stored).map_err(|e| Fail::new("harness:save", format!("{:?}", e)))?;
				batch.save_block_header(&b.header).map_err(|e| Fail::new("harness:save", format!("{:?}", e)))?;
				batch.save_body_head(&Tip::from_header(&b.header)).map_err(|e| Fail::new("harness:save", format!("{:?}", e)))?;
				batch.save_header_head(&Tip::from_header(&b.header)).map_err(|e| Fail::new("harness:save", format!("{:?}", e)))?;
				batch.commit().map_err(|e| Fail::new("harness:commit", format!("{:?}", e)))?;
				// model
				let mut unspent = prev.unspent.clone();
				for i in &spend_idx {
					unspent.remove(i);
				}
				for o in b.outputs() {
					let pos0 = low.txhashset.get_output_pos(&o.commitment()).map_err(|e| Fail::new("harness:pos", format!("{:?}", e)))?;
					unspent.insert(pmmr::n_leaves(pos0 + 1) - 1, o.commitment());
				}
				let n_total = pmmr::n_leaves(sizes.0);
				ensure!(n_total == total + *n_out as u64, "output-count", "op {}: output MMR has {} leaves, expected {}", i, n_total, total + *n_out as u64);
				let m = MBlock {
					header: b.header.clone(),
					unspent,
					n_outputs_total: n_total,
				};
				let want = h(&ref_bitmap_root(m.unspent.keys().cloned()));
				ensure!(ext_root == want, "bitmap-root-differs-from-scratch", "op {}: root inside the extension after apply differs from scratch", i);
				max_chunks = max_chunks.max(n_total / 1024 + 1);
				// outputs created after a gap of all-zero trailing chunks
				if *n_out > 0 && prev.unspent.keys().max().map(|x| x / 1024 + 1).unwrap_or(0) < total / 1024 {
					gap = true;
				}
				chain.push(m);
			}
			EOp::Rewind { k } => {
				let k = (*k as usize).min(chain.len() - 1);
				if k == 0 {
					continue;
				}
				let target = chain[chain.len() - 1 - k].clone();
				let before_chunks = chain.last().unwrap().n_outputs_total / 1024;
				let mut batch = low.store.batch().map_err(|e| Fail::new("harness:batch", format!("{:?}", e)))?;
				let th = target.header.clone();
				let r = txhashset::extending(&mut low.header_pmmr, &mut low.txhashset, &mut batch, |ext, batch| {
					ext.extension.rewind(&th, batch)?;
					Ok(ext.extension.roots()?.output_roots.bitmap_root)
				});
				let ext_root = match r {
					Ok(x) => x,
					Err(e) => fail!("rewind-failed", "op {}: rewinding {} synthetic blocks failed: {:?}", i, k, e),
				};
				batch.save_body_head(&Tip::from_header(&th)).map_err(|e| Fail::new("harness:save", format!("{:?}", e)))?;
				batch.save_header_head(&Tip::from_header(&th)).map_err(|e| Fail::new("harness:save", format!("{:?}", e)))?;
				batch.commit().map_err(|e| Fail::new("harness:commit", format!("{:?}", e)))?;
				chain.truncate(chain.len() - k);
				let want = h(&ref_bitmap_root(target.unspent.keys().cloned()));
				ensure!(ext_root == want, "bitmap-root-differs-from-scratch", "op {}: root inside the extension after rewinding {} blocks differs from scratch", i, k);
				if target.n_outputs_total / 1024 < before_chunks {
					crossed_back = true;
				}
			}
			EOp::Reopen => {
				drop(low);
				low = open_low(&dir).map_err(|e| Fail::new("reopen-failed", e))?;
				reopened = true;
			}
		}
		check(&low, chain.last().unwrap(), &format!("after op {} ({:?})", i, std::mem::discriminant(op)))?;
	}
	// the accumulator rebuilt on open equals the incrementally maintained one
	drop(low);
	let low = open_low(&dir).map_err(|e| Fail::new("reopen-failed", e))?;
	check(&low, chain.last().unwrap(), "after final reopen")?;
	if counting {
		ev.eval();
		ev.class(&format!("ext_histories_max_chunks:{}", max_chunks.min(7)));
		if crossed_back {
			ev.class("ext_histories_rewind_across_chunk_boundary");
		}
		if reopened {
			ev.class("ext_histories_with_reopen");
		}
		if gap {
			ev.class("ext_histories_outputs_after_empty_trailing_chunks");
		}
		if max_chunks >= 2 && crossed_back {
			ev.nontrivial(&("ext", max_chunks, c.ops.len(), reopened));
		}
	}
	drop(low);
	let _ = std::fs::remove_dir_all(&dir);
	Ok(())
}

// ------------------------------------------------------------------ part "chain": real blocks, header commitment, wrong bitmaps

#[derive(Clone, Debug, Serialize, Deserialize)]
pub struct CCase {
	pub blocks: Vec<RawBlock>,
	pub forge: Vec<(u8, u16)>,
}

pub fn ccase() -> impl Strategy<Value = CCase> {
	let blk = (raw_block(0), prop_oneof![9 => Just(0u8), 3 => Just(1u8), 3 => 101u8..104]).prop_map(|(mut b, p)| {
		b.parent = p;
		b
	});
	(prop::collection::vec(blk, 4..14), prop::collection::vec((0u8..4, any::<u16>()), 1..4)).prop_map(|(blocks, forge)| CCase { blocks, forge })
}

fn model_unspent_idx(cb: &ChainBox, m: &Model) -> Result<Vec<u64>, Fail> {
	let mut v = vec![];
	for c in m.utxo.keys() {
		let pos0 = cb.c().get_output_pos(&Commitment::from_vec(c.clone())).map_err(|e| Fail::new("get_output_pos-err", format!("{:?}", e)))?;
		v.push(pmmr::n_leaves(pos0 + 1) - 1);
	}
	Ok(v)
}

pub fn chain_case(ctx: &Ctx, c: &CCase, counting: bool) -> PResult {
	init_thread();
	let ev = &ctx.ev;
	let mut cb = ChainBox::open(&ctx.scratch_dir("c15c")).map_err(|e| Fail::new("init-fresh", e))?;
	let mut w = World::new(&cb.genesis, true);
	let mut head = 0usize;
	// up to height 7: header version 3 from height 6, the merged root is then committed
	let mut raws: Vec<RawBlock> = (0..7)
		.map(|_| RawBlock {
			parent: 0,
			cb_key: 0,
			txs: vec![],
			dt: 60,
			diff: 1,
			neg: Neg::None,
			neg_pick: 0,
			hdr: 0,
			inp: 0,
		})
		.collect();
	raws.extend(c.blocks.iter().cloned());
	let mut forge_left = c.forge.clone();
	let mut late_forgery: Option<(grin_core::core::Block, u8)> = None;
	let mut reorgs = 0;
	for (i, raw) in raws.iter().enumerate() {
		let built = w.build(cb.c(), raw, head).map_err(|e| Fail::new("builder", format!("op {}: {}", i, e)))?;
		let Ok(model) = built.verdict.clone() else { continue };
		// forged sibling first: same block, output_root committing to a wrong bitmap
		if built.parent == head && built.block.header.version.0 >= 3 && !forge_left.is_empty() && i >= 7 {
			let (kind, pk) = forge_left.remove(0);
			// pmmr_root and honest bitmap root of the post-block state through a read-only extension
			let post = {
				let hp = cb.c().header_pmmr();
				let tx = cb.c().txhashset();
				let mut hp = hp.write();
				let mut tx = tx.write();
				let b = built.block.clone();
				txhashset::extending_readonly(&mut hp, &mut tx, |ext, batch| {
					ext.extension.apply_block(&b, ext.header_extension, batch)?;
					ext.extension.roots()
				})
			};
			if let Ok(roots) = post {
				// honest header commits to H(size | pmmr_root | bitmap_root)
				let size = built.block.header.output_mmr_size;
				let merged = |br: &refmmr::H32| h(&refmmr::blake(&[&size.to_be_bytes(), &roots.output_roots.pmmr_root.to_vec(), &br[..]]));
				// reference bitmap of the post-block state: model unspent set; new outputs get
				// the next leaf indices in body order
				let mut idx = model_unspent_idx(&cb, &w.nodes[head].model)?;
				let spent: Vec<Vec<u8>> = {
					let ins: Vec<CommitWrapper> = built.block.inputs().into();
					ins.iter().map(|c| c.commitment().0.to_vec()).collect()
				};
				let spent_idx: Vec<u64> = spent
					.iter()
					.filter_map(|c| cb.c().get_output_pos(&Commitment::from_vec(c.clone())).ok())
					.map(|p| pmmr::n_leaves(p + 1) - 1)
					.collect();
				idx.retain(|x| !spent_idx.contains(x));
				let first_new = pmmr::n_leaves(w.nodes[head].block.header.output_mmr_size);
				for k in 0..built.block.outputs().len() as u64 {
					idx.push(first_new + k);
				}
				let honest = ref_bitmap_root(idx.iter().cloned());
				ensure!(
					merged(&honest) == built.block.header.output_root,
					"header-output-root-not-merged-reference",
					"op {}: header.output_root of a block the chain produced is not H(size|pmmr_root|bitmap root from scratch)",
					i
				);
				let mut wrong = idx.clone();
				match kind {
					0 => {
						// one bit flipped: drop one unspent index
						if wrong.len() > 1 {
							wrong.remove((pk as usize * wrong.len()) >> 16);
						}
					}
					1 => wrong.push(first_new + built.block.outputs().len() as u64 + (pk % 50) as u64), // an extra set bit
					2 => wrong.push(1024 * (2 + (pk % 3) as u64)),                                        // an extra (padding) chunk with a bit
					_ => wrong.clear(),                                                                       // empty bitmap
				}
				let wrong_root = ref_bitmap_root(wrong.iter().cloned());
				if wrong_root != honest {
					let mut fb = built.block.clone();
					fb.header.output_root = merged(&wrong_root);
					seal(&mut fb, PowMode::Real, &w.nodes[head].block.header).map_err(|e| Fail::new("builder", e))?;
					if pk % 2 == 1 {
						// every second forgery arrives AFTER the honest block: a sibling of the new head with the same
						// total work, i.e. a fork block that does not become the head — it has to be refused all the same
						late_forgery = Some((fb, kind));
					} else {
						let res = cb.c().process_block(fb, opts(PowMode::Real));
						ensure!(res.is_err(), "wrong-bitmap-accepted", "op {}: block whose output_root commits to a wrong bitmap (kind {}) was accepted", i, kind);
						if counting {
							ev.class(&format!("wrong_bitmap_rejected:{}", kind));
							ev.nontrivial(&("forge", kind, built.block.outputs().len(), built.block.inputs().len()));
						}
					}
				}
			}
		}
		let honest_res = cb.c().process_block(built.block.clone(), opts(PowMode::Real));
		if let Some((fb, kind)) = late_forgery.take() {
			if honest_res.is_ok() {
				let res = cb.c().process_block(fb, opts(PowMode::Real));
				ensure!(res.is_err(), "wrong-bitmap-accepted", "op {}: sibling of the head whose output_root commits to a wrong bitmap (kind {}) was accepted as a fork block", i, kind);
				if counting {
					ev.class(&format!("wrong_bitmap_rejected_as_fork_sibling:{}", kind));
					ev.nontrivial(&("forge-late", kind, built.block.outputs().len(), built.block.inputs().len()));
				}
			}
		}
		match honest_res {
			Ok(tip) => {
				let n = w.push(&built, model);
				if tip.is_some() {
					if built.parent != head {
						reorgs += 1;
					}
					head = n;
				}
			}
			Err(e) => fail!("valid-block-rejected", "op {}: {}", i, err_name(&e)),
		}
		// committed bitmap root equals from-scratch over the model's unspent set
		let idx = model_unspent_idx(&cb, &w.nodes[head].model)?;
		let want = h(&ref_bitmap_root(idx.iter().cloned()));
		let got = cb.c().txhashset().read().roots().map_err(|e| Fail::new("roots-err", format!("{:?}", e)))?.output_roots.bitmap_root;
		ensure!(got == want, "bitmap-root-differs-from-scratch", "op {}: chain bitmap root differs from scratch over the {} unspent outputs of the model (h={})", i, idx.len(), w.nodes[head].height());
		if i % 5 == 4 {
			cb.reopen().map_err(|e| Fail::new("reopen-failed", e))?;
			let got = cb.c().txhashset().read().roots().map_err(|e| Fail::new("roots-err", format!("{:?}", e)))?.output_roots.bitmap_root;
			ensure!(got == want, "bitmap-root-changed-by-restart", "op {}: bitmap root after reopen differs", i);
		}
	}
	if counting {
		ev.eval();
		if reorgs > 0 {
			ev.class("chain_histories_with_reorg");
			ev.nontrivial(&("chain", reorgs, c.blocks.len()));
		}
	}
	Ok(())
}

pub fn run(ctx: &Ctx) -> HResult<()> {
	init_global();
	let ev = &ctx.ev;
	ev.rule("(ext) histories of block application and rewind through the unit-of-work API the block pipeline uses (txhashset::extending, Extension::apply_block / rewind) with synthetic blocks (dummy proofs: that path does not verify them) creating up to several thousand outputs (several 1024-bit chunks), spends concentrated in old chunks, at chunk boundaries (1023/1024/2047/2048…), whole chunks, the last partial chunk, rewinds that shrink the output set across a chunk boundary, and reopen; after every step the bitmap root (inside the extension and committed) is compared with a root computed from scratch from the reference unspent index set with the harness's own MMR/blake2b; (chain) real mined blocks with forks/reorgs/reopen: committed root vs. from scratch over the replay model, the header's output_root equals H(size|pmmr_root|reference bitmap root), and blocks whose output_root commits to a wrong bitmap (bit dropped, bit added, extra chunk, empty) are rejected; non-trivial = history touching >= 2 chunks with a rewind crossing a chunk boundary / forged-bitmap block / chain history with a reorg");
	ev.assume("leaf index of an output taken from grin's output_pos index (checked independently by C02); chunk encoding: 128 bytes, most significant bit first");
	if let Some((case, f)) = pbt_proc(ctx, "ext", ctx.n(2400, 40000), 16) {
		ctx.report("ext", &f.sig, case, &f.msg);
	}
	if let Some((case, f)) = pbt_proc(ctx, "chain", ctx.n(480, 5000), 16) {
		ctx.report("chain", &f.sig, case, &f.msg);
	}
	ev.sample("ext", || serde_json::to_value(sample_one(ctx.derive_seed("s", 0), &ecase())).unwrap());
	let _ = json!(0);
	Ok(())
}

pub fn part(ctx: &Ctx, part: &str, seed: u64, cases: u32) -> Option<(Value, Fail)> {
	init_global();
	match part {
		"ext" => run_part(ctx, seed, cases, &ecase(), |c, counting| ext_case(ctx, c, counting)),
		"chain" => run_part(ctx, seed, cases, &ccase(), |c, counting| chain_case(ctx, c, counting)),
		_ => None,
	}
}

pub fn replay(ctx: &Ctx, part: &str, case: &Value) -> PResult {
	init_global();
	let bad = |e: serde_json::Error| Fail::new("harness:replay-parse", e.to_string());
	match part {
		"ext" => ext_case(ctx, &serde_json::from_value(case.clone()).map_err(bad)?, false),
		"chain" => chain_case(ctx, &serde_json::from_value(case.clone()).map_err(bad)?, false),
		_ => Ok(()),
	}
}
