//! Transaction pool wired to a real Chain the way the node does it
//! (servers/src/common/adapters.rs: PoolToChainAdapter and the
//! ChainToPoolAndNetAdapter::block_accepted reconciliation).

use grin_chain::Chain;
use grin_core::core::hash::Hash;
use grin_core::core::{Block, BlockHeader, BlockSums, Inputs, OutputIdentifier, Transaction};
use grin_pool::types::{BlockChain, PoolConfig, PoolEntry, PoolError};
use grin_pool::{PoolAdapter, TransactionPool};
use std::sync::Arc;

pub struct PoolChain {
	pub chain: Arc<Chain>,
}

impl BlockChain for PoolChain {
	fn chain_head(&self) -> Result<BlockHeader, PoolError> {
		self.chain.head_header().map_err(|_| PoolError::Other("failed to get head_header".to_string()))
	}
	fn get_block_header(&self, hash: &Hash) -> Result<BlockHeader, PoolError> {
		self.chain.get_block_header(hash).map_err(|_| PoolError::Other("failed to get block_header".to_string()))
	}
	fn get_block_sums(&self, hash: &Hash) -> Result<BlockSums, PoolError> {
		self.chain.get_block_sums(hash).map_err(|_| PoolError::Other("failed to get block_sums".to_string()))
	}
	fn validate_tx(&self, tx: &Transaction) -> Result<(), PoolError> {
		self.chain.validate_tx(tx).map_err(|e| match e {
			grin_chain::Error::Transaction { source: txe } => txe.into(),
			grin_chain::Error::NRDRelativeHeight => PoolError::NRDKernelRelativeHeight,
			_ => PoolError::Other(format!("failed to validate tx: {:?}", e)),
		})
	}
	fn validate_inputs(&self, inputs: &Inputs) -> Result<Vec<OutputIdentifier>, PoolError> {
		self.chain
			.validate_inputs(inputs)
			.map(|outputs| outputs.into_iter().map(|(out, _)| out).collect::<Vec<_>>())
			.map_err(|_| PoolError::Other("failed to validate inputs".to_string()))
	}
	fn verify_coinbase_maturity(&self, inputs: &Inputs) -> Result<(), PoolError> {
		self.chain.verify_coinbase_maturity(inputs).map_err(|_| PoolError::ImmatureCoinbase)
	}
	fn verify_tx_lock_height(&self, tx: &Transaction) -> Result<(), PoolError> {
		self.chain.verify_tx_lock_height(tx).map_err(|_| PoolError::ImmatureTransaction)
	}
}

pub struct NoAdapter;

impl PoolAdapter for NoAdapter {
	fn tx_accepted(&self, _entry: &PoolEntry) {}
	fn stem_tx_accepted(&self, _entry: &PoolEntry) -> Result<(), PoolError> {
		Ok(())
	}
}

pub type Pool = TransactionPool<PoolChain, NoAdapter>;

pub fn new_pool(chain: Arc<Chain>, accept_fee_base: u64, max_pool_size: usize, max_stempool_size: usize, mineable_max_weight: u64) -> Pool {
	TransactionPool::new(
		PoolConfig {
			accept_fee_base,
			reorg_cache_period: 30,
			max_pool_size,
			max_stempool_size,
			mineable_max_weight,
		},
		Arc::new(PoolChain { chain }),
		Arc::new(NoAdapter),
	)
}

/// what the node does when the chain accepts a block (status Next / Reorg)
pub fn on_block_accepted(pool: &mut Pool, b: &Block, reorg: bool) -> Result<(), PoolError> {
	pool.reconcile_block(b)?;
	if reorg {
		pool.reconcile_reorg_cache(&b.header)?;
	}
	Ok(())
}
