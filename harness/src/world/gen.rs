//! Raw-choice generators and the interpreter that turns them into concrete
//! blocks on a fork tree, together with the reference model of every node.
//! The raw choices are what proptest generates and shrinks; the interpreter
//! resolves them against the model state of the chosen parent, so inputs are
//! valid by construction (or invalid in exactly one chosen way).

use super::*;
use proptest::prelude::*;
use std::collections::BTreeSet;

#[derive(Clone, Debug, Serialize, Deserialize)]
pub struct RawOut {
	/// 0: menu amount, 1: re-create a commitment that was spent on this branch
	pub kind: u8,
	pub amt: u8,
	pub key: u8,
}

#[derive(Clone, Debug, Serialize, Deserialize)]
pub struct RawTx {
	/// picks into the parent's spendable list (monotone mapping)
	pub ins: Vec<u16>,
	pub outs: Vec<RawOut>,
	pub fee: u8,
	/// 0 plain, 1 two plain kernels, 2 height-locked (already reached), 3 three kernels mixed,
	/// 4 height-locked one block ahead (invalid), 5..=10 NRD with shared excess tags
	pub kern: u8,
	pub zero_offset: bool,
	/// additionally spend the first output of the previous tx of this block (cut-through)
	pub chain_prev: bool,
}

/// the single deliberate defect of a negative block
#[derive(Clone, Copy, Debug, PartialEq, Eq, Hash, Serialize, Deserialize)]
pub enum Neg {
	None,
	/// two transactions of the block spend the same output
	DoubleSpendInBlock,
	/// spend an output already spent by an ancestor
	SpendSpent,
	/// spend an output that only exists on another fork
	SpendForeign,
	/// spend a commitment that was never created
	SpendNever,
	/// create an output whose commitment is currently unspent
	DupOutput,
	/// spend a coinbase before maturity
	Immature,
}

#[derive(Clone, Debug, Serialize, Deserialize)]
pub struct RawBlock {
	/// 0 = current head; 1..=99: the node created k blocks ago; 100+d: the
	/// ancestor of the current head at depth d
	pub parent: u8,
	pub cb_key: u8,
	pub txs: Vec<RawTx>,
	pub dt: u16,
	/// difficulty increment in SKIP_POW worlds
	pub diff: u16,
	pub neg: Neg,
	pub neg_pick: u16,
	/// header-first delivery: 0 = the block arrives as a whole; 1 = its header is delivered first through
	/// process_block_header; 2 = through sync_block_headers (a one-header chunk). The header of a block whose
	/// body is refused stays known: the header chain then runs ahead of, or on another fork than, the body chain.
	#[serde(default)]
	pub hdr: u8,
	/// encoding of the block's inputs as the node receives it: 0 = as assembled (commitments only, protocol 3);
	/// 1 = the protocol-2 form, (features, commitment) pairs with the true features; 2 = that form with the
	/// features of one input (neg_pick) misdeclared — such an input names an output that does not exist, the
	/// block must be refused; 3 = every input declared Plain (a lie exactly for the coinbase inputs). Input features are not covered by any header field, so no re-mining is needed.
	#[serde(default)]
	pub inp: u8,
}

pub fn raw_out() -> impl Strategy<Value = RawOut> {
	(prop_oneof![4 => Just(0u8), 1 => Just(1u8)], 0u8..6, 0u8..5).prop_map(|(kind, amt, key)| RawOut { kind, amt, key })
}

pub fn raw_tx() -> impl Strategy<Value = RawTx> {
	(
		prop::collection::vec(any::<u16>(), 1..=3),
		prop::collection::vec(raw_out(), 1..=3),
		// low two bits: fee menu; the higher bits choose among the variants of a kernel kind (how far ahead a lock lies)
		prop_oneof![2 => 0u8..4, 1 => any::<u8>()],
		prop_oneof![6 => Just(0u8), 1 => Just(1u8), 1 => Just(2u8), 1 => Just(3u8)],
		any::<bool>(),
		prop::bool::weighted(0.25),
	)
		.prop_map(|(ins, outs, fee, kern, zero_offset, chain_prev)| RawTx {
			ins,
			outs,
			fee,
			kern,
			zero_offset,
			chain_prev,
		})
}

pub fn raw_block(neg_weight: u32) -> impl Strategy<Value = RawBlock> {
	(
		prop_oneof![8 => Just(0u8), 7 => Just(1u8), 5 => 2u8..9],
		0u8..3,
		prop_oneof![3 => Just(vec![]), 5 => prop::collection::vec(raw_tx(), 1..=2), 1 => prop::collection::vec(raw_tx(), 3..=3)],
		1u16..600,
		1u16..1000,
		prop_oneof![
			100 => Just(Neg::None),
			neg_weight => prop_oneof![
				Just(Neg::DoubleSpendInBlock),
				Just(Neg::SpendSpent),
				Just(Neg::SpendForeign),
				Just(Neg::SpendNever),
				Just(Neg::DupOutput),
				Just(Neg::Immature),
			]
		],
		any::<u16>(),
		prop_oneof![14 => Just(0u8), 4 => Just(1u8), 2 => Just(2u8)],
		prop_oneof![100 => Just(0u8), 40 => Just(1u8), neg_weight.min(25) => Just(2u8)],
	)
		.prop_map(|(parent, cb_key, txs, dt, diff, neg, neg_pick, hdr, inp)| RawBlock {
			parent,
			cb_key,
			txs,
			dt,
			diff,
			neg,
			neg_pick,
			hdr,
			inp,
		})
}

pub const AMT_MENU: [u64; 6] = [1_000_000_000, 2_000_000_000, 5_000_000_000, 10_000_000_000, 20_000_000_000, 1];
pub const FEE_MENU: [u64; 4] = [1, 2, 1_000, 2_000_000];

pub fn pick<T>(v: &[T], p: u16) -> Option<&T> {
	if v.is_empty() {
		None
	} else {
		v.get(((p as usize) * v.len()) >> 16)
	}
}

#[derive(Clone)]
pub struct Node {
	pub parent: usize,
	pub block: Block,
	pub model: Model,
	/// OutRefs spent on this branch (candidates for re-creation)
	pub spent: Vec<OutRef>,
}

impl Node {
	pub fn height(&self) -> u64 {
		self.block.header.height
	}
	pub fn hash(&self) -> Hash {
		self.block.hash()
	}
}

pub struct Plan {
	pub parent: usize,
	pub specs: Vec<TxSpec>,
	pub neg: Neg,
	pub spent_now: Vec<OutRef>,
	pub recreated: bool,
	pub cut_through: bool,
}

/// what the interpreter decided for one raw block
pub struct Built {
	pub block: Block,
	pub parent: usize,
	/// Ok(model after) when the model accepts the block on its parent
	pub verdict: Result<Model, ModelReject>,
	pub neg: Neg,
	pub spent_now: Vec<OutRef>,
	pub n_spends: usize,
	pub recreated: bool,
	pub cut_through: bool,
	/// boundary tags for C13: cb:T-1 / cb:T / cb:T+1, lock:.., nrd:..
	pub tags: Vec<String>,
}

pub struct World {
	pub nodes: Vec<Node>,
	/// commitment bytes → OutRef for everything ever created (or referenced)
	pub refs: BTreeMap<Vec<u8>, OutRef>,
	pub commits: Vec<Commitment>,
	pub mode_real: bool,
	/// lowest parent height still usable (raised by compaction)
	pub min_parent_height: u64,
}

impl World {
	pub fn new(genesis: &Block, mode_real: bool) -> World {
		let w = World {
			nodes: vec![Node {
				parent: 0,
				block: genesis.clone(),
				model: Model::genesis(genesis),
				spent: vec![],
			}],
			refs: BTreeMap::new(),
			commits: vec![],
			mode_real,
			min_parent_height: 0,
		};
		w
	}

	pub fn note(&mut self, r: &OutRef) {
		let c = LIB.commit(r);
		if self.refs.insert(c.0.to_vec(), *r).is_none() {
			self.commits.push(c);
		}
	}

	pub fn node_of(&self, h: &Hash) -> Option<usize> {
		self.nodes.iter().position(|n| n.hash() == *h)
	}

	pub fn is_ancestor(&self, a: usize, mut of: usize) -> bool {
		loop {
			if of == a {
				return true;
			}
			if of == 0 {
				return false;
			}
			of = self.nodes[of].parent;
		}
	}

	/// spendable (mature at `height`) outputs of a node's state, deterministic order
	fn spendable(&self, node: usize, height: u64) -> Vec<OutRef> {
		let maturity = global::coinbase_maturity();
		let m = &self.nodes[node].model;
		let mut v: Vec<(u64, OutRef)> = m
			.utxo
			.iter()
			.filter(|(_, e)| !e.features.is_coinbase() || e.height + maturity <= height)
			.filter_map(|(c, e)| self.refs.get(c).map(|r| (e.height, *r)))
			.collect();
		// newest first so that picks near 0 spend recent outputs
		v.sort_by(|a, b| b.0.cmp(&a.0).then(a.1.cmp(&b.1)));
		v.into_iter().map(|x| x.1).collect()
	}

	fn resolve_parent(&self, raw: &RawBlock, head: usize) -> usize {
		let mut p = if raw.parent == 0 {
			head
		} else if raw.parent >= 100 {
			// ancestor of the head at depth parent-100
			let mut a = head;
			for _ in 0..(raw.parent - 100) {
				a = self.nodes[a].parent;
			}
			a
		} else {
			self.nodes.len().saturating_sub(raw.parent as usize)
		};
		if p >= self.nodes.len() {
			p = head;
		}
		if self.nodes[p].height() < self.min_parent_height {
			p = head;
		}
		p
	}

	/// Resolve the raw choices of one block into concrete transaction specs
	/// against the model state of the chosen parent.
	pub fn plan(&mut self, raw: &RawBlock, head: usize) -> Plan {
		let parent = self.resolve_parent(raw, head);
		let pnode = self.nodes[parent].clone();
		let height = pnode.height() + 1;
		let mut avail = self.spendable(parent, height);
		let parent_utxo: BTreeSet<Vec<u8>> = pnode.model.utxo.keys().cloned().collect();
		let mut created_here: BTreeSet<Vec<u8>> = BTreeSet::new();
		let mut specs: Vec<TxSpec> = vec![];
		let mut spent_now = vec![];
		let mut recreated = false;
		let mut cut_through = false;
		let mut prev_first_out: Option<OutRef> = None;
		let mut weight_left: i64 = global::max_block_weight() as i64 - 25; // coinbase output+kernel = 21+3
		for rt in &raw.txs {
			let mut ins: Vec<OutRef> = vec![];
			for p in &rt.ins {
				if let Some(o) = pick(&avail, *p).copied() {
					avail.retain(|x| *x != o);
					ins.push(o);
				}
			}
			let mut used_prev = false;
			if rt.chain_prev {
				if let Some(o) = prev_first_out.take() {
					ins.push(o);
					used_prev = true;
				}
			}
			if ins.is_empty() {
				continue;
			}
			let total: u64 = ins.iter().map(|o| o.amount).sum();
			let kernels: Vec<KernelSpec> = {
				let f = FEE_MENU[rt.fee as usize % 4];
				match rt.kern {
					1 => vec![KernelSpec::plain(f), KernelSpec::plain(1)],
					2 => vec![KernelSpec {
						kind: KKind::HeightLocked,
						fee: f,
						shift: 0,
						lock: height.saturating_sub((rt.fee % 3) as u64),
						excess_tag: 0,
					}],
					// 4: height-locked in the future (must be refused): one block ahead in half of the cases,
					// otherwise two blocks, or far beyond anything a chain reaches (the ends of u32 / i64 / u64)
					4 => vec![KernelSpec {
						kind: KKind::HeightLocked,
						fee: f,
						shift: 0,
						lock: match (rt.fee / 4) % 8 {
							0..=3 => height + 1,
							4 => height + 2,
							5 => height + (1u64 << 32),
							6 => height + (1u64 << 63) - 1 + (rt.fee as u64 / 32 % 2),
							_ => u64::MAX - (rt.fee as u64 / 32 % 2),
						},
						excess_tag: 0,
					}],
					// 5..=10: NRD kernels sharing their excess through a tag (two tags, relative heights 1..3)
					5..=10 => vec![KernelSpec {
						kind: KKind::Nrd,
						fee: f,
						shift: 0,
						// relative heights 1..3 (the boundary lies inside the histories), now and then the longest ones
						// the rule admits (a day, a week): every repetition inside such a history must then be refused
						lock: match (rt.fee / 4) % 8 {
							6 => 1440,
							7 => grin_core::consensus::WEEK_HEIGHT,
							_ => 1 + ((rt.kern - 5) % 3) as u64,
						},
						excess_tag: 1 + ((rt.kern - 5) / 3) as u32,
					}],
					3 => vec![
						KernelSpec::plain(f),
						KernelSpec {
							kind: KKind::HeightLocked,
							fee: 3,
							shift: 2,
							lock: 1,
							excess_tag: 0,
						},
						KernelSpec {
							kind: KKind::Plain,
							fee: 5,
							shift: 7,
							lock: 0,
							excess_tag: 0,
						},
					],
					_ => vec![KernelSpec::plain(f)],
				}
			};
			let fee: u64 = kernels.iter().map(|k| k.fee).sum();
			if total <= fee + 1 {
				// cannot pay: give inputs back
				for o in ins {
					if !(used_prev && Some(o) == prev_first_out) {
						avail.push(o);
					}
				}
				continue;
			}
			let mut left = total - fee;
			let mut outs: Vec<OutRef> = vec![];
			let n = rt.outs.len();
			for (i, ro) in rt.outs.iter().enumerate() {
				let last = i + 1 == n;
				let mut cand = if ro.kind == 1 && !last {
					// re-create a commitment spent on this branch, if affordable
					pnode
						.spent
						.iter()
						.rev()
						.filter(|o| !o.cb && o.amount < left)
						.nth(ro.amt as usize % 3)
						.copied()
						.map(|o| {
							recreated = true;
							o
						})
						.unwrap_or(OutRef {
							amount: AMT_MENU[ro.amt as usize % 6].min(left - 1).max(1),
							key: ro.key as u32,
							cb: false,
						})
				} else if last {
					OutRef {
						amount: left,
						key: ro.key as u32,
						cb: false,
					}
				} else {
					OutRef {
						amount: AMT_MENU[ro.amt as usize % 6].min(left - 1).max(1),
						key: ro.key as u32,
						cb: false,
					}
				};
				if !last && left - cand.amount == 0 {
					cand.amount = left;
				}
				// by construction: never collide with a currently unspent
				// commitment or one created earlier in this block
				loop {
					let cb = LIB.commit(&cand).0.to_vec();
					if parent_utxo.contains(&cb) || created_here.contains(&cb) {
						cand.key += 7;
						continue;
					}
					created_here.insert(cb);
					break;
				}
				left -= cand.amount;
				outs.push(cand);
				if left == 0 {
					break;
				}
			}
			if left > 0 {
				// amounts were clamped: put the rest on the last output
				let l = outs.last_mut().unwrap();
				created_here.remove(&LIB.commit(l).0.to_vec());
				l.amount += left;
				loop {
					let cb = LIB.commit(l).0.to_vec();
					if parent_utxo.contains(&cb) || created_here.contains(&cb) {
						l.key += 7;
						continue;
					}
					created_here.insert(cb);
					break;
				}
			}
			let w = Transaction::weight_by_iok(ins.len() as u64, outs.len() as u64, kernels.len() as u64) as i64;
			if w > weight_left {
				for o in &outs {
					created_here.remove(&LIB.commit(o).0.to_vec());
				}
				continue;
			}
			weight_left -= w;
			if used_prev {
				cut_through = true;
			}
			prev_first_out = outs.first().copied();
			for o in &ins {
				spent_now.push(*o);
			}
			specs.push(TxSpec {
				inputs: ins,
				outputs: outs,
				kernels,
				zero_offset: rt.zero_offset,
			});
		}

		// the single defect of a negative block
		let mut neg = raw.neg;
		match neg {
			Neg::None => {}
			Neg::DoubleSpendInBlock => {
				// a second tx spending the first input of the first tx
				if let Some(first) = specs.first().map(|s| s.inputs[0]) {
					if first.amount > 2 {
						specs.push(TxSpec {
							inputs: vec![first],
							outputs: vec![self.fresh_out(first.amount - 1, 40, &parent_utxo, &mut created_here)],
							kernels: vec![KernelSpec::plain(1)],
							zero_offset: false,
						});
					} else {
						neg = Neg::None;
					}
				} else {
					neg = Neg::None;
				}
			}
			Neg::SpendSpent => {
				let c: Vec<OutRef> = pnode.spent.iter().filter(|o| o.amount > 2 && !parent_utxo.contains(&LIB.commit(o).0.to_vec())).copied().collect();
				match pick(&c, raw.neg_pick) {
					Some(o) => specs.push(TxSpec {
						inputs: vec![*o],
						outputs: vec![self.fresh_out(o.amount - 1, 41, &parent_utxo, &mut created_here)],
						kernels: vec![KernelSpec::plain(1)],
						zero_offset: false,
					}),
					None => neg = Neg::None,
				}
			}
			Neg::SpendForeign => {
				// created somewhere in the world, never on this branch
				let mut on_branch: BTreeSet<Vec<u8>> = parent_utxo.clone();
				for o in &pnode.spent {
					on_branch.insert(LIB.commit(o).0.to_vec());
				}
				let c: Vec<OutRef> = self.refs.iter().filter(|(c, r)| !on_branch.contains(*c) && r.amount > 2 && !r.cb).map(|(_, r)| *r).collect();
				// only those actually created by some node (refs also holds probes)
				let c: Vec<OutRef> = c
					.into_iter()
					.filter(|r| {
						let cb = LIB.commit(r).0.to_vec();
						self.nodes.iter().any(|n| n.model.utxo.contains_key(&cb))
					})
					.collect();
				match pick(&c, raw.neg_pick) {
					Some(o) => specs.push(TxSpec {
						inputs: vec![*o],
						outputs: vec![self.fresh_out(o.amount - 1, 42, &parent_utxo, &mut created_here)],
						kernels: vec![KernelSpec::plain(1)],
						zero_offset: false,
					}),
					None => neg = Neg::None,
				}
			}
			Neg::SpendNever => {
				let o = OutRef {
					amount: 7_000_000 + raw.neg_pick as u64,
					key: 900 + (raw.neg_pick % 50) as u32,
					cb: false,
				};
				specs.push(TxSpec {
					inputs: vec![o],
					outputs: vec![self.fresh_out(o.amount - 1, 43, &parent_utxo, &mut created_here)],
					kernels: vec![KernelSpec::plain(1)],
					zero_offset: false,
				});
			}
			Neg::DupOutput => {
				// spend something valid, create an output equal to a currently unspent one
				let unspent_plain: Vec<OutRef> = self.spendable(parent, height).into_iter().filter(|o| !o.cb && !spent_now.contains(o)).collect();
				let src = avail.iter().find(|o| unspent_plain.iter().any(|d| d != *o && d.amount + 1 < o.amount)).copied();
				match src {
					Some(s) => {
						let d = *unspent_plain.iter().find(|d| **d != s && d.amount + 1 < s.amount).unwrap();
						let rest = self.fresh_out(s.amount - d.amount - 1, 44, &parent_utxo, &mut created_here);
						avail.retain(|x| *x != s);
						spent_now.push(s);
						specs.push(TxSpec {
							inputs: vec![s],
							outputs: vec![d, rest],
							kernels: vec![KernelSpec::plain(1)],
							zero_offset: false,
						});
					}
					None => neg = Neg::None,
				}
			}
			Neg::Immature => {
				let maturity = global::coinbase_maturity();
				let c: Vec<OutRef> = pnode
					.model
					.utxo
					.iter()
					.filter(|(_, e)| e.features.is_coinbase() && e.height + maturity > height)
					.filter_map(|(c, _)| self.refs.get(c).copied())
					.collect();
				match pick(&c, raw.neg_pick) {
					Some(o) => specs.push(TxSpec {
						inputs: vec![*o],
						outputs: vec![self.fresh_out(o.amount - 1, 45, &parent_utxo, &mut created_here)],
						kernels: vec![KernelSpec::plain(1)],
						zero_offset: false,
					}),
					None => neg = Neg::None,
				}
			}
		}

		Plan {
			parent,
			specs,
			neg,
			spent_now,
			recreated,
			cut_through,
		}
	}

	pub fn resolve_specs(&mut self, raw: &RawBlock, head: usize) -> Vec<TxSpec> {
		let mut r = raw.clone();
		r.neg = Neg::None;
		self.plan(&r, head).specs
	}

	/// Interpret one raw block against the current world; does not add it.
	/// `chain` is used to compute difficulty and roots (read-only extension).
	pub fn build(&mut self, chain: &Chain, raw: &RawBlock, head: usize) -> Result<Built, String> {
		let Plan {
			parent,
			specs,
			neg,
			spent_now,
			recreated,
			cut_through,
		} = self.plan(raw, head);
		let pnode = self.nodes[parent].clone();
		let height = pnode.height() + 1;
		for s in &specs {
			for o in s.inputs.iter().chain(s.outputs.iter()) {
				self.note(o);
			}
		}
		let txs: Vec<Transaction> = specs.iter().map(|s| assemble(s).0).collect();
		let mode = if self.mode_real { PowMode::Real } else { PowMode::Skip(raw.diff.max(1) as u64) };
		let fees: u64 = txs.iter().map(|t| t.fee()).sum();
		let (cbref, _, _) = LIB.coinbase(fees, height as u32 * 4 + raw.cb_key as u32);
		self.note(&cbref);
		let prev = pnode.block.header.clone();
		let mut b = match block_template(chain, &prev, &txs, height as u32 * 4 + raw.cb_key as u32, raw.dt as i64, mode) {
			Ok(b) => b,
			Err(e) => {
				if neg != Neg::None {
					// the defect made the block impossible to even assemble:
					// fall back to the clean block
					return self.build(
						chain,
						&RawBlock {
							neg: Neg::None,
							..raw.clone()
						},
						head,
					);
				}
				return Err(e);
			}
		};
		if raw.inp != 0 {
			let commits: Vec<Commitment> = match b.inputs() {
				grin_core::core::Inputs::FeaturesAndCommit(v) => v.iter().map(|i| i.commitment()).collect(),
				grin_core::core::Inputs::CommitOnly(v) => v.iter().map(|c| c.commitment()).collect(),
			};
			let lie = if raw.inp == 2 && !commits.is_empty() { Some((raw.neg_pick as usize * commits.len()) >> 16) } else { None };
			let mut v: Vec<grin_core::core::Input> = commits
				.iter()
				.enumerate()
				.map(|(i, c)| {
					let truth = self.refs.get(&c.0.to_vec()).map(|r| r.features()).unwrap_or(grin_core::core::OutputFeatures::Plain);
					let f = if raw.inp == 3 {
						grin_core::core::OutputFeatures::Plain
					} else if lie == Some(i) {
						if truth.is_coinbase() {
							grin_core::core::OutputFeatures::Plain
						} else {
							grin_core::core::OutputFeatures::Coinbase
						}
					} else {
						truth
					};
					grin_core::core::Input::new(f, *c)
				})
				.collect();
			v.sort_unstable();
			b.body.inputs = grin_core::core::Inputs::FeaturesAndCommit(v);
		}
		let verdict = pnode.model.apply(&b);
		match set_roots(chain, &mut b) {
			Ok(()) => {}
			Err(e) => {
				if verdict.is_ok() {
					return Err(format!("builder could not root a model-valid block: {} ; specs {:?}", e, specs));
				}
				// negative block that cannot be applied: plausible sizes, arbitrary roots
				let n_out = b.outputs().len() as u64;
				let n_kern = b.kernels().len() as u64;
				b.header.output_mmr_size = grin_core::core::pmmr::insertion_to_pmmr_index(prev.output_mmr_count() + n_out);
				b.header.kernel_mmr_size = grin_core::core::pmmr::insertion_to_pmmr_index(prev.kernel_mmr_count() + n_kern);
				b.header.prev_root = Hash::default();
				let _ = chain.set_prev_root_only(&mut b.header);
			}
		}
		let t0 = std::time::Instant::now();
		seal(&mut b, mode, &prev)?;
		if std::env::var("GV_DEBUG2").is_ok() {
			eprintln!("seal {:.1}ms nonce {}", t0.elapsed().as_secs_f64() * 1e3, b.header.pow.nonce);
		}
		// two raw blocks may resolve to the very same block (same parent, content,
		// timestamp): make the later one distinct by nudging its timestamp
		if self.node_of(&b.hash()).is_some() && raw.dt < 5000 {
			let mut r2 = raw.clone();
			r2.dt += 1;
			return self.build(chain, &r2, head);
		}
		let n_spends = b.inputs().len();
		// boundary tags (distance of each time-locked element to its threshold)
		let mut tags = vec![];
		let maturity = global::coinbase_maturity();
		let tag = |d: i64| match d {
			-1 => "T-1".to_string(),
			0 => "T".to_string(),
			1 => "T+1".to_string(),
			x if x < -1 => "early".to_string(),
			_ => "late".to_string(),
		};
		for sp in &specs {
			for i in &sp.inputs {
				if i.cb {
					if let Some(e) = pnode.model.utxo.get(&LIB.commit(i).0.to_vec()) {
						tags.push(format!("cb:{}", tag(height as i64 - (e.height + maturity) as i64)));
					} else {
						tags.push("cb:absent-on-this-fork".to_string());
					}
				}
			}
			for k in &sp.kernels {
				match k.kind {
					KKind::HeightLocked => tags.push(format!("lock:{}", if k.lock > height && k.lock - height >= 1 << 32 { "far-early".to_string() } else { tag(height as i64 - k.lock as i64) })),
					KKind::Nrd => {
						let ex = sign_kernel(k.features(), &scalar_from(format!("tag{}", k.excess_tag).as_bytes())).excess.0.to_vec();
						if height < 9 {
							tags.push("nrd:pre-hf3".to_string());
						} else if let Some((_, ph)) = pnode.model.nrd.iter().rev().find(|(e, _)| *e == ex) {
							tags.push(format!("nrd:{}", tag(height as i64 - (*ph + k.lock) as i64)));
						} else {
							tags.push("nrd:first-on-this-fork".to_string());
						}
					}
					KKind::Plain => {}
				}
			}
		}
		Ok(Built {
			tags,
			block: b,
			parent,
			verdict,
			neg,
			spent_now,
			n_spends,
			recreated,
			cut_through,
		})
	}

	fn fresh_out(&mut self, amount: u64, key: u32, parent_utxo: &BTreeSet<Vec<u8>>, created: &mut BTreeSet<Vec<u8>>) -> OutRef {
		let mut o = OutRef {
			amount: amount.max(1),
			key,
			cb: false,
		};
		loop {
			let cb = LIB.commit(&o).0.to_vec();
			if parent_utxo.contains(&cb) || created.contains(&cb) {
				o.key += 100;
				continue;
			}
			created.insert(cb);
			return o;
		}
	}

	/// record an accepted block as a new node
	pub fn push(&mut self, built: &Built, model: Model) -> usize {
		let mut spent = self.nodes[built.parent].spent.clone();
		// spent on this branch = inputs of the block body (after cut-through)
		let ins: Vec<grin_core::core::CommitWrapper> = built.block.inputs().into();
		for c in ins {
			if let Some(r) = self.refs.get(&c.commitment().0.to_vec()) {
				spent.push(*r);
			}
		}
		self.nodes.push(Node {
			parent: built.parent,
			block: built.block.clone(),
			model,
			spent,
		});
		self.nodes.len() - 1
	}
}
