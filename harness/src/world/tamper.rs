//! Mutation catalogue: single-field corruptions of transactions and blocks,
//! each with a verdict derived from first principles (does the balance
//! equation still hold, is every signed field still covered by a valid
//! signature, is every proof still for its own commitment). Verdict `true`
//! means the object is still valid and MUST be accepted (controls).

use super::*;
use grin_core::core::transaction;
use grin_core::core::{Inputs, TransactionBody};
use grin_util::secp::Signature;

#[derive(Clone, Copy, Debug, PartialEq, Eq, Hash, Serialize, Deserialize, PartialOrd, Ord)]
pub enum TxT {
	// ---- spec level: re-assembled, every signature and proof valid
	OutAmountPlus,
	OutAmountMinus,
	InAmountPlus,
	InAmountMinus,
	FeePlusResigned,
	FeeMinusResigned,
	ShiftChangedResigned, // control: still valid
	KindChangedResigned,  // control: still valid as a transaction
	LockChangedResigned,  // control: still valid as a transaction
	// ---- post assembly, nothing re-signed
	OffsetChanged,
	/// a zero offset replaced by 32 bytes that are no scalar (ff..ff >= the group order): the balance would
	/// hold if such an offset were read as "none", so only a strict reading of the offset refuses it
	OffsetNotAScalar,
	DropKernel,
	DupKernel,
	ForeignKernel,
	SwapProofs,
	SwapSigs,
	SigBitFlip,
	FeeChangedUnsigned,
	ShiftChangedUnsigned,
	KernelTagChangedUnsigned,
	LockChangedUnsigned,
	CoinbaseFlagOnOutput,
	CoinbaseKernel,
	ExcessReplaced,
	ProofBitFlip,
	DropOutput,
	DropInput,
	/// (protocol-2 input form) one input listed a second time under the OTHER feature byte: two distinct
	/// entries for one commitment, so the input side of the balance counts it twice
	InputTwiceUnderOtherFeatures,
	/// the same, but the transaction is BUILT for the doubled input: one output is worth that much more and
	/// the excess subtracts the input's blinding factor twice, so every sum balances — one coin spent, twice
	/// its value paid out. Only the rule that no commitment occurs twice in a body can refuse it.
	InputTwiceUnderOtherFeaturesRebalanced,
	/// as above with the second listing under the SAME features (a plain duplicate entry)
	InputTwiceRebalanced,
}

pub fn tx_catalogue() -> Vec<TxT> {
	use TxT::*;
	vec![
		OutAmountPlus,
		OutAmountMinus,
		InAmountPlus,
		InAmountMinus,
		FeePlusResigned,
		FeeMinusResigned,
		ShiftChangedResigned,
		KindChangedResigned,
		LockChangedResigned,
		OffsetChanged,
		OffsetNotAScalar,
		DropKernel,
		DupKernel,
		ForeignKernel,
		SwapProofs,
		SwapSigs,
		SigBitFlip,
		FeeChangedUnsigned,
		ShiftChangedUnsigned,
		KernelTagChangedUnsigned,
		LockChangedUnsigned,
		CoinbaseFlagOnOutput,
		CoinbaseKernel,
		ExcessReplaced,
		ProofBitFlip,
		DropOutput,
		DropInput,
		InputTwiceUnderOtherFeatures,
		InputTwiceUnderOtherFeaturesRebalanced,
		InputTwiceRebalanced,
	]
}

pub fn rebuild(tx: &Transaction, inputs: Vec<Input>, outputs: Vec<Output>, kernels: Vec<TxKernel>) -> Transaction {
	let body = TransactionBody::init(inputs.as_slice().into(), &outputs, &kernels, false).expect("body init");
	Transaction {
		offset: tx.offset.clone(),
		body,
	}
}

fn inputs_of(tx: &Transaction) -> Vec<Input> {
	match tx.inputs() {
		Inputs::FeaturesAndCommit(v) => v,
		Inputs::CommitOnly(v) => v.iter().map(|c| Input::new(OutputFeatures::Plain, c.commitment())).collect(),
	}
}

/// Apply one corruption. Returns None when it does not apply to this
/// transaction shape; otherwise (tx, still_valid).
pub fn tamper_tx(spec: &TxSpec, t: TxT, pick: usize) -> Option<(Transaction, bool)> {
	use TxT::*;
	let (tx, _sec) = assemble(spec);
	let nk = spec.kernels.len();
	let no = spec.outputs.len();
	let ki = pick % nk.max(1);
	let oi = pick % no.max(1);
	match t {
		OutAmountPlus | OutAmountMinus => {
			let mut s = spec.clone();
			let o = &mut s.outputs[oi];
			if t == OutAmountPlus {
				o.amount = o.amount.checked_add(1)?;
			} else {
				if o.amount <= 1 {
					return None;
				}
				o.amount -= 1;
			}
			Some((assemble(&s).0, false))
		}
		InAmountPlus | InAmountMinus => {
			let mut s = spec.clone();
			let ii = pick % s.inputs.len();
			let o = &mut s.inputs[ii];
			if t == InAmountPlus {
				o.amount = o.amount.checked_add(1)?;
			} else {
				if o.amount <= 1 {
					return None;
				}
				o.amount -= 1;
			}
			Some((assemble(&s).0, false))
		}
		FeePlusResigned | FeeMinusResigned => {
			let mut s = spec.clone();
			let k = &mut s.kernels[ki];
			if t == FeePlusResigned {
				if k.fee >= (1u64 << 40) - 1 {
					return None;
				}
				k.fee += 1;
			} else {
				if k.fee <= 1 {
					return None;
				}
				k.fee -= 1;
			}
			Some((assemble(&s).0, false))
		}
		ShiftChangedResigned => {
			let mut s = spec.clone();
			s.kernels[ki].shift = (s.kernels[ki].shift + 1 + (pick as u8 % 14)) % 16;
			Some((assemble(&s).0, true))
		}
		KindChangedResigned => {
			let mut s = spec.clone();
			let k = &mut s.kernels[ki];
			match k.kind {
				KKind::Plain => {
					k.kind = KKind::HeightLocked;
					k.lock = pick as u64 % 5;
				}
				KKind::HeightLocked => {
					k.kind = KKind::Plain;
					k.lock = 0;
				}
				KKind::Nrd => {
					k.kind = KKind::Plain;
					k.lock = 0;
				}
			}
			Some((assemble(&s).0, true))
		}
		LockChangedResigned => {
			let mut s = spec.clone();
			let k = &mut s.kernels[ki];
			match k.kind {
				KKind::HeightLocked => k.lock += 1 + pick as u64,
				KKind::Nrd => k.lock = 1 + (k.lock % 100),
				KKind::Plain => return None,
			}
			Some((assemble(&s).0, true))
		}
		OffsetChanged => {
			let mut x = tx.clone();
			x.offset = BlindingFactor::from_secret_key(scalar_from(format!("off{}", pick).as_bytes()));
			Some((x, false))
		}
		OffsetNotAScalar => {
			if tx.offset != BlindingFactor::zero() {
				return None;
			}
			let mut x = tx.clone();
			x.offset = BlindingFactor::from_slice(&[0xffu8; 32]);
			Some((x, false))
		}
		DropKernel => {
			let mut ks = tx.kernels().to_vec();
			ks.remove(ki);
			Some((rebuild(&tx, inputs_of(&tx), tx.outputs().to_vec(), ks), false))
		}
		DupKernel => {
			let mut ks = tx.kernels().to_vec();
			ks.push(ks[ki]);
			Some((rebuild(&tx, inputs_of(&tx), tx.outputs().to_vec(), ks), false))
		}
		ForeignKernel => {
			let mut ks = tx.kernels().to_vec();
			ks.push(sign_kernel(KernelSpec::plain(1 + pick as u64 % 7).features(), &scalar_from(format!("foreign{}", pick).as_bytes())));
			Some((rebuild(&tx, inputs_of(&tx), tx.outputs().to_vec(), ks), false))
		}
		SwapProofs => {
			if no < 2 {
				return None;
			}
			let mut os = tx.outputs().to_vec();
			let (a, b) = (oi, (oi + 1) % no);
			if os[a].proof == os[b].proof {
				return None;
			}
			let pa = os[a].proof;
			os[a].proof = os[b].proof;
			os[b].proof = pa;
			Some((rebuild(&tx, inputs_of(&tx), os, tx.kernels().to_vec()), false))
		}
		SwapSigs => {
			if nk < 2 {
				return None;
			}
			let mut ks = tx.kernels().to_vec();
			let (a, b) = (ki, (ki + 1) % nk);
			let sa = ks[a].excess_sig;
			ks[a].excess_sig = ks[b].excess_sig;
			ks[b].excess_sig = sa;
			Some((rebuild(&tx, inputs_of(&tx), tx.outputs().to_vec(), ks), false))
		}
		SigBitFlip => {
			let mut ks = tx.kernels().to_vec();
			let mut raw = [0u8; 64];
			raw.copy_from_slice(ks[ki].excess_sig.as_ref());
			raw[pick % 64] ^= 1 << (pick % 8);
			ks[ki].excess_sig = Signature::from_raw_data(&raw).ok()?;
			Some((rebuild(&tx, inputs_of(&tx), tx.outputs().to_vec(), ks), false))
		}
		FeeChangedUnsigned | ShiftChangedUnsigned | KernelTagChangedUnsigned | LockChangedUnsigned | CoinbaseKernel => {
			let mut ks = tx.kernels().to_vec();
			let sk = &spec.kernels[0];
			// kernels are sorted in the tx; find the one matching spec kernel ki by features
			let target = spec.kernels[ki].features();
			let idx = ks.iter().position(|k| k.features == target)?;
			let mut ns = spec.kernels[ki];
			match t {
				FeeChangedUnsigned => ns.fee = if ns.fee >= (1u64 << 40) - 1 { ns.fee - 1 } else { ns.fee + 1 },
				ShiftChangedUnsigned => ns.shift = (ns.shift + 1) % 16,
				KernelTagChangedUnsigned => {
					ns.kind = if ns.kind == KKind::Plain { KKind::HeightLocked } else { KKind::Plain };
					if ns.kind == KKind::Plain {
						ns.lock = 0;
					}
				}
				LockChangedUnsigned => {
					if ns.kind == KKind::Plain {
						return None;
					}
					ns.lock += 1;
				}
				_ => {}
			}
			let _ = sk;
			ks[idx].features = if t == CoinbaseKernel { KernelFeatures::Coinbase } else { ns.features() };
			Some((rebuild(&tx, inputs_of(&tx), tx.outputs().to_vec(), ks), false))
		}
		CoinbaseFlagOnOutput => {
			let mut os = tx.outputs().to_vec();
			os[oi].identifier.features = OutputFeatures::Coinbase;
			Some((rebuild(&tx, inputs_of(&tx), os, tx.kernels().to_vec()), false))
		}
		ExcessReplaced => {
			let mut ks = tx.kernels().to_vec();
			ks[ki].excess = LIB.commit(&OutRef {
				amount: 0,
				key: 5000 + pick as u32,
				cb: false,
			});
			Some((rebuild(&tx, inputs_of(&tx), tx.outputs().to_vec(), ks), false))
		}
		ProofBitFlip => {
			let mut os = tx.outputs().to_vec();
			// flip one bit inside the two leading 32-byte scalars (taux, mu): every
			// bit of those is significant. (Bits elsewhere are not all significant:
			// the point-parity byte of a bulletproof has unused bits, so an
			// arbitrary bit flip may yield another VALID proof of the same
			// statement — proof malleability creates no value and is not a rejection case.)
			os[oi].proof.proof[pick % 64] ^= 1 << (pick % 8);
			Some((rebuild(&tx, inputs_of(&tx), os, tx.kernels().to_vec()), false))
		}
		DropOutput => {
			let mut os = tx.outputs().to_vec();
			os.remove(oi);
			Some((rebuild(&tx, inputs_of(&tx), os, tx.kernels().to_vec()), false))
		}
		DropInput => {
			let mut is = inputs_of(&tx);
			if is.is_empty() {
				return None;
			}
			is.remove(pick % is.len());
			Some((rebuild(&tx, is, tx.outputs().to_vec(), tx.kernels().to_vec()), false))
		}
		InputTwiceUnderOtherFeatures => {
			let mut is = inputs_of(&tx);
			if is.is_empty() {
				return None;
			}
			let i = pick % is.len();
			let other = if is[i].features.is_coinbase() { OutputFeatures::Plain } else { OutputFeatures::Coinbase };
			let c = is[i].commitment();
			is.push(Input::new(other, c));
			Some((rebuild(&tx, is, tx.outputs().to_vec(), tx.kernels().to_vec()), false))
		}
		InputTwiceUnderOtherFeaturesRebalanced | InputTwiceRebalanced => {
			if spec.inputs.is_empty() || spec.outputs.is_empty() {
				return None;
			}
			let mut s = spec.clone();
			let dup = s.inputs[pick % s.inputs.len()];
			s.inputs.push(dup);
			s.outputs[oi].amount = s.outputs[oi].amount.checked_add(dup.amount)?;
			if s.outputs.iter().filter(|o| **o == s.outputs[oi]).count() > 1 || s.inputs.contains(&s.outputs[oi]) {
				return None;
			}
			// balanced in value and in blinding factors; TransactionBody::init is not asked to verify anything
			let (tx2, _) = assemble(&s);
			let mut is = inputs_of(&tx2);
			let c = LIB.commit(&dup);
			let i = is.iter().position(|x| x.commitment() == c)?;
			if t == InputTwiceUnderOtherFeaturesRebalanced {
				is[i] = Input::new(if dup.cb { OutputFeatures::Plain } else { OutputFeatures::Coinbase }, c);
			}
			Some((rebuild(&tx2, is, tx2.outputs().to_vec(), tx2.kernels().to_vec()), false))
		}
	}
}

// ------------------------------------------------------------------ blocks

#[derive(Clone, Copy, Debug, PartialEq, Eq, Hash, Serialize, Deserialize, PartialOrd, Ord)]
pub enum BlockT {
	/// untouched (must be accepted)
	Untouched,
	/// reward split over two coinbase outputs and two coinbase kernels (control: valid)
	SplitReward,
	/// coinbase output worth reward+δ, nothing else changed
	CoinbaseInflated,
	/// coinbase output worth reward+δ and a regular output deflated by δ: the
	/// block balances overall, only the coinbase rule can catch it
	CoinbaseInflatedCompensated,
	/// coinbase built for fees+1 / fees-1
	FeeClaimHigh,
	FeeClaimLow,
	CoinbaseOutputFlagRemoved,
	CoinbaseKernelFlagRemoved,
	/// neither a coinbase-flagged output nor a coinbase-flagged kernel: the reward is claimed by a
	/// plain output under a plain kernel over the same excess (every sum still balances)
	CoinbaseBothFlagsRemoved,
	CoinbaseFlagOnRegularOutput,
	/// the coinbase output carries the (valid) range proof of a different output
	CoinbaseProofFromOtherOutput,
	/// one significant bit of the coinbase output's range proof flipped
	CoinbaseProofScalarFlip,
	/// reward split into (reward+X) with a valid proof and a "negative" output (-X)
	/// that cannot have a valid proof; coinbase rule and all sums still balance, so
	/// only the range proof of the second coinbase output can refuse it
	CoinbaseNegativeSplit,
	KernelOffsetChanged,
	/// the header's total kernel offset replaced by 32 bytes that are no scalar, in a block whose true total is
	/// zero (everything balances if the claim is read as "none")
	KernelOffsetNotAScalar,
	/// a transaction of the block replaced by one creating value (signatures valid)
	InflatingTx,
	/// a transaction-level corruption (index into tx_catalogue) inside the block
	TxLevel(u8),
	// ---- header commitments, tampered after the roots were computed
	OutputRoot,
	RangeProofRoot,
	KernelRoot,
	OutputMmrSizePlus,
	OutputMmrSizeMinus,
	KernelMmrSizePlus,
	KernelMmrSizeMinus,
	PrevRoot,
	// ---- header rules / pow (for stage coverage)
	TimestampNotLater,
	WrongVersion,
	TotalDifficultyPlus,
	BadPowNonce,
	HeightPlus,
}

#[derive(Clone, Copy, Debug, PartialEq, Eq, Hash, PartialOrd, Ord)]
pub enum Stage {
	Valid,
	Pow,
	HeaderRule,
	BodyValidation,
	CoinbaseRule,
	Utxo,
	Sums,
	RootsAfterApply,
}

pub fn block_catalogue() -> Vec<BlockT> {
	use BlockT::*;
	let mut v = vec![
		SplitReward,
		CoinbaseInflated,
		CoinbaseInflatedCompensated,
		FeeClaimHigh,
		FeeClaimLow,
		CoinbaseOutputFlagRemoved,
		CoinbaseKernelFlagRemoved,
		CoinbaseBothFlagsRemoved,
		CoinbaseFlagOnRegularOutput,
		CoinbaseProofFromOtherOutput,
		CoinbaseProofScalarFlip,
		CoinbaseNegativeSplit,
		KernelOffsetChanged,
		KernelOffsetNotAScalar,
		InflatingTx,
		OutputRoot,
		RangeProofRoot,
		KernelRoot,
		OutputMmrSizePlus,
		OutputMmrSizeMinus,
		KernelMmrSizePlus,
		KernelMmrSizeMinus,
		PrevRoot,
		TimestampNotLater,
		WrongVersion,
		TotalDifficultyPlus,
		BadPowNonce,
		HeightPlus,
	];
	for i in 0..tx_catalogue().len() {
		v.push(TxLevel(i as u8));
	}
	v
}

const AMT_OTHER: [u64; 3] = [1_000_000_000, 2_000_000_000, 5_000_000_000];

pub struct Tampered {
	pub block: Block,
	pub valid: bool,
	pub stage: Stage,
}

/// coinbase output/kernel for an arbitrary amount (blinding from the library key)
fn coinbase_for_amount(amount: u64, key: u32) -> (OutRef, Output, TxKernel) {
	let r = OutRef { amount, key, cb: true };
	let out = LIB.output(&r);
	// kernel excess = blind·G, signed with the blind
	let k = sign_kernel(KernelFeatures::Coinbase, &LIB.blind(&r));
	(r, out, k)
}

/// Build a block on `prev` from transaction specs with one corruption.
/// `chain` must hold `prev` as a full block (roots are computed on it).
pub fn tampered_block(
	chain: &Chain,
	prev: &BlockHeader,
	specs: &[TxSpec],
	cb_key: u32,
	dt: i64,
	t: BlockT,
	pick: usize,
) -> Result<Option<Tampered>, String> {
	use BlockT::*;
	let mode = PowMode::Real;
	// in-block chaining (one transaction spends another's output, removed by
	// cut-through): corrupting such a transaction may be neutralised by the
	// cut-through or break its in-block spender, so transaction-touching
	// corruptions are applied to unchained blocks only
	let chained = specs.iter().enumerate().any(|(i, a)| specs.iter().enumerate().any(|(j, b)| i != j && a.inputs.iter().any(|x| b.outputs.contains(x))));
	if chained && matches!(t, InflatingTx | CoinbaseInflatedCompensated | CoinbaseFlagOnRegularOutput | TxLevel(_)) {
		return Ok(None);
	}
	let mut txs: Vec<Transaction> = specs.iter().map(|s| assemble(s).0).collect();
	let fees: u64 = specs.iter().map(|s| s.fee()).sum();
	let reward = consensus::reward(fees);
	let mut valid = false;
	let mut stage = Stage::BodyValidation;
	let mut cb_outs: Vec<Output> = vec![];
	let mut cb_kerns: Vec<TxKernel> = vec![];
	let (_, o, k) = LIB.coinbase(fees, cb_key);
	cb_outs.push(o);
	cb_kerns.push(k);
	match t {
		Untouched => {
			valid = true;
			stage = Stage::Valid;
		}
		SplitReward => {
			let a = (1 + pick as u64 % 5) * 10_000_000_000;
			let (_, o1, k1) = coinbase_for_amount(a, cb_key);
			let (_, o2, k2) = coinbase_for_amount(reward - a, cb_key + 1);
			// the two kernels' excesses sum to Σ cb outputs − reward·H only if
			// excess_i = out_i − amount_i·H, which is what sign_kernel(blind) gives
			cb_outs = vec![o1, o2];
			cb_kerns = vec![k1, k2];
			valid = true;
			stage = Stage::Valid;
		}
		CoinbaseInflated => {
			let (_, o1, k1) = coinbase_for_amount(reward + [1u64, 1_000, 1_000_000_000][pick % 3], cb_key);
			cb_outs = vec![o1];
			cb_kerns = vec![k1];
			stage = Stage::CoinbaseRule;
		}
		CoinbaseInflatedCompensated => {
			if specs.is_empty() {
				return Ok(None);
			}
			let d = [1u64, 1_000, 1_000_000_000][pick % 3];
			let mut s = specs[pick % specs.len()].clone();
			let oi = pick % s.outputs.len();
			if s.outputs[oi].amount <= d {
				return Ok(None);
			}
			s.outputs[oi].amount -= d;
			txs[pick % specs.len()] = assemble(&s).0;
			let (_, o1, k1) = coinbase_for_amount(reward + d, cb_key);
			cb_outs = vec![o1];
			cb_kerns = vec![k1];
			stage = Stage::CoinbaseRule;
		}
		FeeClaimHigh | FeeClaimLow => {
			if t == FeeClaimLow && fees == 0 {
				return Ok(None);
			}
			let f2 = if t == FeeClaimHigh { fees + 1 } else { fees - 1 };
			let (_, o1, k1) = LIB.coinbase(f2, cb_key);
			cb_outs = vec![o1];
			cb_kerns = vec![k1];
			stage = Stage::CoinbaseRule;
		}
		CoinbaseOutputFlagRemoved => {
			cb_outs[0].identifier.features = OutputFeatures::Plain;
			stage = Stage::CoinbaseRule;
		}
		CoinbaseBothFlagsRemoved => {
			cb_outs[0].identifier.features = OutputFeatures::Plain;
			let r = OutRef {
				amount: reward,
				key: cb_key,
				cb: true,
			};
			cb_kerns = vec![sign_kernel(KernelSpec::plain(1).features(), &LIB.blind(&r))];
			stage = Stage::CoinbaseRule;
		}
		CoinbaseKernelFlagRemoved => {
			// plain kernel over the same excess, properly signed for the plain message
			let r = OutRef {
				amount: reward,
				key: cb_key,
				cb: true,
			};
			cb_kerns = vec![sign_kernel(KernelSpec::plain(1).features(), &LIB.blind(&r))];
			stage = Stage::CoinbaseRule;
		}
		CoinbaseFlagOnRegularOutput => {
			if specs.is_empty() {
				return Ok(None);
			}
			stage = Stage::CoinbaseRule; // applied on the merged body below
		}
		CoinbaseProofFromOtherOutput => {
			let other = LIB.output(&OutRef {
				amount: AMT_OTHER[pick % AMT_OTHER.len()],
				key: 3 + (pick % 3) as u32,
				cb: false,
			});
			cb_outs[0].proof = other.proof;
			stage = Stage::BodyValidation;
		}
		CoinbaseProofScalarFlip => {
			cb_outs[0].proof.proof[pick % 64] ^= 1 << (pick % 8);
			stage = Stage::BodyValidation;
		}
		CoinbaseNegativeSplit => {
			let x = [1u64, 1_000, 1_000_000_000][pick % 3];
			let ra = OutRef {
				amount: reward + x,
				key: cb_key,
				cb: true,
			};
			let rb = OutRef {
				amount: x,
				key: cb_key + 1,
				cb: true,
			};
			let a = LIB.output(&ra);
			// B = -(x*H + r2*G)
			let b_commit = {
				let secp = static_secp_instance();
				let secp = secp.lock();
				secp.commit_sum(vec![], vec![LIB.commit(&rb)]).map_err(|e| format!("{:?}", e))?
			};
			let b = Output::new(OutputFeatures::Coinbase, b_commit, a.proof);
			let key = sum_scalars(vec![LIB.blind(&ra)], vec![LIB.blind(&rb)]).ok_or("zero key")?;
			cb_outs = vec![a, b];
			cb_kerns = vec![sign_kernel(KernelFeatures::Coinbase, &key)];
			stage = Stage::BodyValidation;
		}
		InflatingTx => {
			if specs.is_empty() {
				return Ok(None);
			}
			let i = pick % specs.len();
			let mut s = specs[i].clone();
			let oi = pick % s.outputs.len();
			s.outputs[oi].amount += [1u64, 1_000, 1_000_000_000][pick % 3];
			txs[i] = assemble(&s).0;
			stage = Stage::BodyValidation;
		}
		TxLevel(ci) => {
			if specs.is_empty() {
				return Ok(None);
			}
			let i = pick % specs.len();
			let tt = tx_catalogue()[ci as usize];
			if matches!(tt, TxT::InputTwiceUnderOtherFeatures | TxT::InputTwiceUnderOtherFeaturesRebalanced | TxT::InputTwiceRebalanced) {
				// a block is assembled with commitment-only inputs here: the pair would collapse into a plain duplicate
				return Ok(None);
			}
			if tt == TxT::OffsetNotAScalar {
				// a block has no per-transaction offsets: the builder folds them into the header's total, and the
				// non-scalar one contributes nothing — the block would simply be valid (block-level: KernelOffsetNotAScalar)
				return Ok(None);
			}
			match tamper_tx(&specs[i], tt, pick) {
				Some((tx, v)) => {
					// a control that stays valid as a transaction must also respect the
					// block-level lock-height rule to stay valid inside this block
					if v && tx.kernels().iter().any(|k| match k.features {
						KernelFeatures::HeightLocked { lock_height, .. } => lock_height > prev.height + 1,
						KernelFeatures::NoRecentDuplicate { .. } => true,
						_ => false,
					}) {
						return Ok(None);
					}
					txs[i] = tx;
					valid = v;
					stage = if v { Stage::Valid } else { Stage::BodyValidation };
				}
				None => return Ok(None),
			}
		}
		_ => {}
	}
	// fees actually carried by the (possibly corrupted) transactions decide
	// what an honest coinbase would have to be; when a control changed
	// nothing about fees the original coinbase stays right
	if valid && t != Untouched && t != SplitReward {
		let f2: u64 = txs.iter().map(|t| t.fee()).sum();
		if f2 != fees {
			return Ok(None);
		}
	}

	// merge: valid parts through aggregate (cut-through), then raw append
	let mut inputs: Vec<grin_core::core::CommitWrapper> = vec![];
	let mut outputs: Vec<Output> = vec![];
	let mut kernels: Vec<TxKernel> = vec![];
	let mut offsets: Vec<BlindingFactor> = vec![prev.total_kernel_offset.clone()];
	let merged = transaction::aggregate(&txs);
	match merged {
		Ok(agg) => {
			inputs.extend(Vec::<grin_core::core::CommitWrapper>::from(agg.inputs()));
			outputs.extend_from_slice(agg.outputs());
			kernels.extend_from_slice(agg.kernels());
			offsets.push(agg.offset.clone());
		}
		Err(_) => {
			for tx in &txs {
				inputs.extend(Vec::<grin_core::core::CommitWrapper>::from(tx.inputs()));
				outputs.extend_from_slice(tx.outputs());
				kernels.extend_from_slice(tx.kernels());
				offsets.push(tx.offset.clone());
			}
		}
	}
	if t == CoinbaseFlagOnRegularOutput {
		let n = outputs.len();
		outputs[pick % n].identifier.features = OutputFeatures::Coinbase;
	}
	outputs.extend(cb_outs);
	kernels.extend(cb_kerns);
	let body = TransactionBody::init(Inputs::CommitOnly(inputs), &outputs, &kernels, false).map_err(|e| format!("body init {:?}", e))?;
	let mut total_offset = grin_core::core::committed::sum_kernel_offsets(offsets, vec![]).map_err(|e| format!("offsets {:?}", e))?;
	if t == KernelOffsetChanged {
		total_offset = BlindingFactor::from_secret_key(scalar_from(format!("blockoff{}", pick).as_bytes()));
		stage = Stage::BodyValidation;
	}
	if t == KernelOffsetNotAScalar {
		// only where the chain's running total is zero, so that "no offset" would balance
		if total_offset != BlindingFactor::zero() || prev.total_kernel_offset != BlindingFactor::zero() {
			return Ok(None);
		}
		total_offset = BlindingFactor::from_slice(&[0xffu8; 32]);
		// the stateless Block::validate works on the difference to the previous total, computed leniently
		// (measured, not asserted); the chain's own sum check must refuse the block
		stage = Stage::Sums;
	}
	// header
	let mut b = block_template(chain, prev, &[], cb_key, dt, mode)?;
	b.body = body;
	b.header.total_kernel_offset = total_offset;
	let rooted = set_roots(chain, &mut b);
	if let Err(e) = &rooted {
		if valid {
			return Err(format!("could not root a block expected valid ({:?}): {}", t, e));
		}
		// cannot be applied at all (UTXO-level defect): only the corruptions that
		// change an input commitment may end up here; anything else would mean the
		// block is being rejected for a reason other than the intended one
		let utxo_level = matches!(t, TxLevel(ci) if matches!(tx_catalogue()[ci as usize], TxT::InAmountPlus | TxT::InAmountMinus | TxT::DropOutput | TxT::DropInput));
		if !utxo_level && e.contains("DuplicateCommitment") {
			// the corruption changed an output's amount and the new (amount, key) pair happens to be a
			// commitment that is already unspent on this chain (commitments are a function of amount and
			// key here): a second, unintended defect — this corruption is not constructible at this point
			return Ok(None);
		}
		if !utxo_level {
			return Err(format!("could not root a {:?} block although its defect is not at UTXO level: {}", t, e));
		}
		b.header.output_mmr_size = grin_core::core::pmmr::insertion_to_pmmr_index(prev.output_mmr_count() + b.outputs().len() as u64);
		b.header.kernel_mmr_size = grin_core::core::pmmr::insertion_to_pmmr_index(prev.kernel_mmr_count() + b.kernels().len() as u64);
		let _ = chain.set_prev_root_only(&mut b.header);
		stage = Stage::Utxo;
	}
	let flip = |h: &Hash| {
		let mut v = h.to_vec();
		v[pick % 32] ^= 1 << (pick % 8);
		Hash::from_vec(&v)
	};
	let leaf_step = |size: u64, up: bool| -> u64 {
		let n = grin_core::core::pmmr::n_leaves(size);
		grin_core::core::pmmr::insertion_to_pmmr_index(if up { n + 1 } else { n.saturating_sub(1) })
	};
	match t {
		OutputRoot => {
			b.header.output_root = flip(&b.header.output_root);
			stage = Stage::RootsAfterApply;
		}
		RangeProofRoot => {
			b.header.range_proof_root = flip(&b.header.range_proof_root);
			stage = Stage::RootsAfterApply;
		}
		KernelRoot => {
			b.header.kernel_root = flip(&b.header.kernel_root);
			stage = Stage::RootsAfterApply;
		}
		OutputMmrSizePlus | OutputMmrSizeMinus => {
			let s2 = leaf_step(b.header.output_mmr_size, t == OutputMmrSizePlus);
			if s2 <= prev.output_mmr_size {
				// would fall under the "at least one output" header rule
				stage = Stage::HeaderRule;
			} else {
				stage = Stage::RootsAfterApply;
			}
			b.header.output_mmr_size = s2;
		}
		KernelMmrSizePlus | KernelMmrSizeMinus => {
			let s2 = leaf_step(b.header.kernel_mmr_size, t == KernelMmrSizePlus);
			if s2 <= prev.kernel_mmr_size {
				stage = Stage::HeaderRule;
			} else {
				stage = Stage::RootsAfterApply;
			}
			b.header.kernel_mmr_size = s2;
		}
		PrevRoot => {
			b.header.prev_root = flip(&b.header.prev_root);
			stage = Stage::HeaderRule;
		}
		TimestampNotLater => {
			b.header.timestamp = prev.timestamp - Duration::seconds((pick % 3) as i64);
			stage = Stage::HeaderRule;
		}
		WrongVersion => {
			b.header.version = grin_core::core::HeaderVersion(b.header.version.0 + 1);
			stage = Stage::HeaderRule;
		}
		TotalDifficultyPlus => {
			b.header.pow.total_difficulty = b.header.pow.total_difficulty + Difficulty::from_num(1 + pick as u64 % 5);
			stage = Stage::HeaderRule;
		}
		HeightPlus => {
			b.header.height += 1;
			stage = Stage::HeaderRule;
		}
		_ => {}
	}
	// mine AFTER tampering: every header field is covered by the PoW pre-image
	if t == TotalDifficultyPlus {
		// mine for the claimed (higher) target so that only the retarget rule can reject
		let diff = b.header.total_difficulty() - prev.total_difficulty();
		b.header.pow.proof.edge_bits = global::min_edge_bits();
		b.header.pow.nonce = 0;
		pow::pow_size(&mut b.header, diff, global::proofsize(), global::min_edge_bits()).map_err(|e| format!("pow {:?}", e))?;
	} else {
		seal(&mut b, mode, prev)?;
	}
	if t == BadPowNonce {
		b.header.pow.nonce = b.header.pow.nonce.wrapping_add(1 + pick as u64 % 7);
		stage = Stage::Pow;
	}
	Ok(Some(Tampered { block: b, valid, stage }))
}
