//! Shared machinery for chain-level properties: asset library (memoised
//! outputs / coinbases), transaction assembler that knows every secret,
//! reference UTXO model, block builder with real PoW, chain wrapper.

use crate::engine::*;
use chrono::Duration;
use grin_chain::types::{BlockStatus, ChainAdapter, Options};
use grin_chain::Chain;
use grin_core::consensus;
use grin_core::core::hash::{Hash, Hashed};
use grin_core::core::{
	Block, BlockHeader, FeeFields, Input, KernelFeatures, NRDRelativeHeight, Output, OutputFeatures,
	Transaction, TxKernel,
};
use grin_core::global::{self, ChainTypes};
use grin_core::libtx::{self, aggsig, reward, ProofBuilder};
use grin_core::pow::{self, Difficulty};
use grin_keychain::{BlindingFactor, ExtKeychain, Identifier, Keychain, SwitchCommitmentType};
use grin_util::secp::key::SecretKey;
use grin_util::secp::pedersen::Commitment;
use grin_util::static_secp_instance;
use lazy_static::lazy_static;
use serde_derive::{Deserialize, Serialize};
use std::collections::{BTreeMap, HashMap};
use std::path::{Path, PathBuf};
use std::sync::{Arc, Mutex};

pub mod gen;
pub mod poolkit;
pub mod tamper;

pub const KC_SEED: &[u8] = b"grin-verif fixed keychain seed 0001";

/// Every harness thread that touches grin must call this (grin's global
/// settings are thread-local with a global fallback).
pub fn init_thread() {
	global::set_local_chain_type(ChainTypes::AutomatedTesting);
	global::set_local_nrd_enabled(true);
	global::set_local_accept_fee_base(1);
}

pub fn init_global() {
	static ONCE: std::sync::Once = std::sync::Once::new();
	ONCE.call_once(|| {
		global::init_global_chain_type(ChainTypes::AutomatedTesting);
		global::init_global_nrd_enabled(true);
		global::init_global_accept_fee_base(1);
	});
	init_thread();
}

/// Names one output (and therefore one commitment): amount, key index, coinbase flag.
#[derive(Clone, Copy, Debug, PartialEq, Eq, Hash, PartialOrd, Ord, Serialize, Deserialize)]
pub struct OutRef {
	pub amount: u64,
	pub key: u32,
	pub cb: bool,
}

impl OutRef {
	pub fn key_id(&self) -> Identifier {
		ExtKeychain::derive_key_id(3, if self.cb { 1 } else { 2 }, self.key, 0, 0)
	}
	pub fn features(&self) -> OutputFeatures {
		if self.cb {
			OutputFeatures::Coinbase
		} else {
			OutputFeatures::Plain
		}
	}
}

pub struct Lib {
	pub kc: ExtKeychain,
	outs: Mutex<HashMap<OutRef, Output>>,
	cbs: Mutex<HashMap<OutRef, (Output, TxKernel)>>,
	pub proofs_created: std::sync::atomic::AtomicU64,
	pub proofs_from_cache: std::sync::atomic::AtomicU64,
	/// on-disk memo of bulletproofs (pure function of the fixed keychain
	/// seed, key, amount): OutRef → serialized Output. An entry is used only
	/// if its commitment equals the one the current code derives.
	disk: Mutex<HashMap<OutRef, Vec<u8>>>,
	disk_file: Mutex<Option<std::fs::File>>,
	/// in-memory memo of key derivations (BIP32 + switch commitment ≈ 3 ms each)
	commits: Mutex<HashMap<OutRef, Commitment>>,
	blinds: Mutex<HashMap<OutRef, SecretKey>>,
}

fn cache_paths() -> Vec<PathBuf> {
	let root = std::env::var("GV_ROOT").unwrap_or_else(|_| "/verif".into());
	vec![
		PathBuf::from(&root).join("corpus").join("outputs.jsonl"),
		PathBuf::from(&root).join("out").join("cache").join("outputs.jsonl"),
	]
}

fn load_disk_cache() -> HashMap<OutRef, Vec<u8>> {
	let mut m = HashMap::new();
	if std::env::var("GV_NO_CACHE").is_ok() {
		return m;
	}
	for p in cache_paths() {
		let Ok(s) = std::fs::read_to_string(&p) else { continue };
		for line in s.lines() {
			let Ok(v) = serde_json::from_str::<serde_json::Value>(line) else { continue };
			let (Some(a), Some(k), Some(c), Some(h)) = (v["a"].as_u64(), v["k"].as_u64(), v["c"].as_bool(), v["o"].as_str()) else { continue };
			if let Ok(bytes) = grin_util::from_hex(h) {
				m.insert(
					OutRef {
						amount: a,
						key: k as u32,
						cb: c,
					},
					bytes,
				);
			}
		}
	}
	m
}

lazy_static! {
	pub static ref LIB: Lib = Lib {
		kc: ExtKeychain::from_seed(KC_SEED, false).expect("keychain"),
		outs: Mutex::new(HashMap::new()),
		cbs: Mutex::new(HashMap::new()),
		proofs_created: std::sync::atomic::AtomicU64::new(0),
		proofs_from_cache: std::sync::atomic::AtomicU64::new(0),
		disk: Mutex::new(load_disk_cache()),
		disk_file: Mutex::new(None),
		commits: Mutex::new(HashMap::new()),
		blinds: Mutex::new(HashMap::new()),
	};
}

impl Lib {
	pub fn commit(&self, o: &OutRef) -> Commitment {
		if let Some(c) = self.commits.lock().unwrap().get(o) {
			return *c;
		}
		let c = self
			.kc
			.commit(o.amount, &o.key_id(), SwitchCommitmentType::Regular)
			.expect("commit");
		self.commits.lock().unwrap().insert(*o, c);
		c
	}

	fn blind_nolock(&self, o: &OutRef) -> SecretKey {
		// derive_key takes the keychain's own secp context, not the static one
		self.blind(o)
	}

	pub fn blind(&self, o: &OutRef) -> SecretKey {
		if let Some(c) = self.blinds.lock().unwrap().get(o) {
			return c.clone();
		}
		let k = self
			.kc
			.derive_key(o.amount, &o.key_id(), SwitchCommitmentType::Regular)
			.expect("derive");
		self.blinds.lock().unwrap().insert(*o, k.clone());
		k
	}

	fn from_disk(&self, o: &OutRef, commit: &Commitment) -> Option<Output> {
		let bytes = self.disk.lock().unwrap().get(o).cloned()?;
		let out: Output = grin_core::ser::deserialize_default(&mut &bytes[..]).ok()?;
		if out.commitment() == *commit && out.features() == o.features() {
			self.proofs_from_cache.fetch_add(1, std::sync::atomic::Ordering::Relaxed);
			Some(out)
		} else {
			None
		}
	}

	fn to_disk(&self, o: &OutRef, out: &Output) {
		if std::env::var("GV_NO_CACHE").is_ok() {
			return;
		}
		use std::io::Write;
		let mut g = self.disk_file.lock().unwrap();
		if g.is_none() {
			let p = cache_paths().pop().unwrap();
			let _ = std::fs::create_dir_all(p.parent().unwrap());
			*g = std::fs::OpenOptions::new().create(true).append(true).open(&p).ok();
		}
		if let Some(f) = g.as_mut() {
			let bytes = grin_core::ser::ser_vec(out, grin_core::ser::ProtocolVersion(1)).unwrap_or_default();
			let line = format!("{{\"a\":{},\"k\":{},\"c\":{},\"o\":\"{}\"}}\n", o.amount, o.key, o.cb, grin_util::ToHex::to_hex(&bytes));
			let _ = f.write_all(line.as_bytes());
		}
	}

	/// plain or coinbase-flagged output with a real bulletproof (memoised)
	pub fn output(&self, o: &OutRef) -> Output {
		if let Some(x) = self.outs.lock().unwrap().get(o) {
			return x.clone();
		}
		let commit = self.commit(o);
		if let Some(out) = self.from_disk(o, &commit) {
			self.outs.lock().unwrap().insert(*o, out.clone());
			return out;
		}
		let proof = libtx::proof::create(
			&self.kc,
			&ProofBuilder::new(&self.kc),
			o.amount,
			&o.key_id(),
			SwitchCommitmentType::Regular,
			commit,
			None,
		)
		.expect("proof");
		self.proofs_created.fetch_add(1, std::sync::atomic::Ordering::Relaxed);
		let out = Output::new(o.features(), commit, proof);
		self.to_disk(o, &out);
		self.outs.lock().unwrap().insert(*o, out.clone());
		out
	}

	/// coinbase kernel for an existing coinbase output (cheap: one signature)
	fn coinbase_kernel(&self, r: &OutRef, out: &Output) -> TxKernel {
		let secp = static_secp_instance();
		let secp = secp.lock();
		let over_commit = secp.commit_value(r.amount).expect("commit_value");
		let excess = secp.commit_sum(vec![out.commitment()], vec![over_commit]).expect("commit_sum");
		let pubkey = excess.to_pubkey(&secp).expect("pubkey");
		let features = KernelFeatures::Coinbase;
		let msg = features.kernel_sig_msg().expect("msg");
		let key = self.blind_nolock(r);
		let nonce = det_nonce(&secp, &key, msg.as_ref());
		let sig = aggsig::sign_single(&secp, &msg, &key, Some(&nonce), Some(&pubkey)).expect("sign");
		TxKernel {
			features,
			excess,
			excess_sig: sig,
		}
	}

	/// coinbase output + kernel for a block collecting `fees`
	pub fn coinbase(&self, fees: u64, key: u32) -> (OutRef, Output, TxKernel) {
		let r = OutRef {
			amount: consensus::reward(fees),
			key,
			cb: true,
		};
		if let Some(x) = self.cbs.lock().unwrap().get(&r) {
			return (r, x.0.clone(), x.1.clone());
		}
		let commit = self.commit(&r);
		if let Some(o) = self.from_disk(&r, &commit) {
			let k = self.coinbase_kernel(&r, &o);
			self.cbs.lock().unwrap().insert(r, (o.clone(), k.clone()));
			self.outs.lock().unwrap().insert(r, o.clone());
			return (r, o, k);
		}
		let _ = reward::output::<ExtKeychain, ProofBuilder<ExtKeychain>>;
		let o = self.output(&r);
		let k = self.coinbase_kernel(&r, &o);
		self.cbs.lock().unwrap().insert(r, (o.clone(), k.clone()));
		self.outs.lock().unwrap().insert(r, o.clone());
		(r, o, k)
	}

	/// generate a batch of outputs on all cores
	pub fn prefetch(&self, outs: &[OutRef]) {
		use rayon::prelude::*;
		outs.par_iter().for_each(|o| {
			init_thread();
			if o.cb {
				// reward::output needs fees: amount - REWARD
				self.coinbase(o.amount - consensus::REWARD, o.key);
			} else {
				self.output(o);
			}
		});
	}
}

pub fn commit_hex(c: &Commitment) -> String {
	grin_util::ToHex::to_hex(&c.0.to_vec())
}

#[derive(Clone, Copy, Debug, PartialEq, Eq, Hash, Serialize, Deserialize)]
pub enum KKind {
	Plain,
	HeightLocked,
	Nrd,
}

#[derive(Clone, Copy, Debug, PartialEq, Eq, Hash, Serialize, Deserialize)]
pub struct KernelSpec {
	pub kind: KKind,
	pub fee: u64,
	pub shift: u8,
	/// lock height (HeightLocked) or relative height (Nrd)
	pub lock: u64,
	/// non-zero: the private excess is derived from this tag alone, so two
	/// kernels with the same tag share their excess commitment (NRD duplicates)
	pub excess_tag: u32,
}

impl KernelSpec {
	pub fn plain(fee: u64) -> KernelSpec {
		KernelSpec {
			kind: KKind::Plain,
			fee,
			shift: 0,
			lock: 0,
			excess_tag: 0,
		}
	}
	pub fn features(&self) -> KernelFeatures {
		let fee = FeeFields::new(self.shift as u64, self.fee).expect("fee fields");
		match self.kind {
			KKind::Plain => KernelFeatures::Plain { fee },
			KKind::HeightLocked => KernelFeatures::HeightLocked {
				fee,
				lock_height: self.lock,
			},
			KKind::Nrd => KernelFeatures::NoRecentDuplicate {
				fee,
				relative_height: NRDRelativeHeight::new(self.lock).expect("nrd rel height"),
			},
		}
	}
}

#[derive(Clone, Debug, PartialEq, Eq, Hash, Serialize, Deserialize)]
pub struct TxSpec {
	pub inputs: Vec<OutRef>,
	pub outputs: Vec<OutRef>,
	pub kernels: Vec<KernelSpec>,
	/// 0: offset = whatever is left after the kernel excesses; 1: zero offset
	/// (last untagged kernel absorbs the remainder)
	pub zero_offset: bool,
}

impl TxSpec {
	pub fn fee(&self) -> u64 {
		self.kernels.iter().map(|k| k.fee).sum()
	}
	pub fn balanced(&self) -> bool {
		let i: u128 = self.inputs.iter().map(|o| o.amount as u128).sum();
		let o: u128 = self.outputs.iter().map(|o| o.amount as u128).sum();
		i == o + self.fee() as u128
	}
}

pub fn scalar_from(tag: &[u8]) -> SecretKey {
	let secp = static_secp_instance();
	let secp = secp.lock();
	let mut ctr = 0u32;
	loop {
		let h = crate::refmmr::blake(&[b"gv-scalar", tag, &ctr.to_be_bytes()]);
		if let Ok(k) = SecretKey::from_slice(&secp, &h) {
			return k;
		}
		ctr += 1;
	}
}

/// Sum of secret scalars; None when the result is zero.
pub fn sum_scalars(pos: Vec<SecretKey>, neg: Vec<SecretKey>) -> Option<SecretKey> {
	let secp = static_secp_instance();
	let secp = secp.lock();
	secp.blind_sum(pos, neg).ok()
}

fn det_nonce(secp: &grin_util::secp::Secp256k1, key: &SecretKey, msg: &[u8]) -> SecretKey {
	let mut ctr = 0u32;
	loop {
		let h = crate::refmmr::blake(&[b"gv-nonce", &key.0[..], msg, &ctr.to_be_bytes()]);
		if let Ok(k) = SecretKey::from_slice(secp, &h) {
			return k;
		}
		ctr += 1;
	}
}

pub fn sign_kernel(features: KernelFeatures, excess_key: &SecretKey) -> TxKernel {
	let secp = static_secp_instance();
	let secp = secp.lock();
	let mut k = TxKernel::with_features(features);
	k.excess = secp.commit(0, excess_key.clone()).expect("commit excess");
	let msg = k.msg_to_sign().expect("msg");
	let pubkey = k.excess.to_pubkey(&secp).expect("pubkey");
	// deterministic nonce (hash of key and message) so that every object the
	// harness builds is a pure function of its recipe: runs are reproducible
	let nonce = det_nonce(&secp, excess_key, msg.as_ref());
	k.excess_sig = aggsig::sign_single(&secp, &msg, excess_key, Some(&nonce), Some(&pubkey)).expect("sign");
	k
}

/// The secrets of an assembled transaction (so that callers can corrupt and re-sign).
pub struct TxSecrets {
	pub kernel_keys: Vec<SecretKey>,
	pub offset: BlindingFactor,
}

/// Assemble a transaction from a spec. The spec need not balance in value
/// (negative cases); blinding always balances.
pub fn assemble(spec: &TxSpec) -> (Transaction, TxSecrets) {
	let lib = &*LIB;
	let inputs: Vec<Input> = spec.inputs.iter().map(|o| Input::new(o.features(), lib.commit(o))).collect();
	let outputs: Vec<Output> = spec.outputs.iter().map(|o| lib.output(o)).collect();
	let r = sum_scalars(
		spec.outputs.iter().map(|o| lib.blind(o)).collect(),
		spec.inputs.iter().map(|o| lib.blind(o)).collect(),
	);
	let spec_tag = format!("{:?}", spec);
	let mut keys: Vec<SecretKey> = spec
		.kernels
		.iter()
		.enumerate()
		.map(|(i, k)| {
			if k.excess_tag != 0 {
				scalar_from(format!("tag{}", k.excess_tag).as_bytes())
			} else {
				scalar_from(format!("{}#{}", spec_tag, i).as_bytes())
			}
		})
		.collect();
	let mut offset = BlindingFactor::zero();
	let free = spec.kernels.iter().rposition(|k| k.excess_tag == 0);
	if spec.zero_offset && free.is_some() && r.is_some() {
		// chosen kernel key = r − Σ others
		let f = free.unwrap();
		let others: Vec<SecretKey> = keys.iter().enumerate().filter(|(i, _)| *i != f).map(|(_, k)| k.clone()).collect();
		if let Some(k) = sum_scalars(vec![r.clone().unwrap()], others) {
			keys[f] = k;
		}
	} else {
		// offset = r − Σ keys
		let mut pos = vec![];
		if let Some(r) = r.clone() {
			pos.push(r);
		}
		if let Some(o) = sum_scalars(pos, keys.clone()) {
			offset = BlindingFactor::from_secret_key(o);
		}
	}
	let kernels: Vec<TxKernel> = spec.kernels.iter().zip(keys.iter()).map(|(k, key)| sign_kernel(k.features(), key)).collect();
	let tx = Transaction::new(inputs.as_slice().into(), &outputs, &kernels).with_offset(offset.clone());
	(
		tx,
		TxSecrets {
			kernel_keys: keys,
			offset,
		},
	)
}

// ------------------------------------------------------------------ model

#[derive(Clone, Debug, PartialEq)]
pub struct UtxoEntry {
	pub features: OutputFeatures,
	pub height: u64,
}

/// Reference state of one block: replay of its ancestors' bodies.
#[derive(Clone, Debug, Default)]
pub struct Model {
	pub height: u64,
	/// commitment bytes → entry
	pub utxo: BTreeMap<Vec<u8>, UtxoEntry>,
	/// (excess bytes, height) of NRD kernels on this branch, in order
	pub nrd: Vec<(Vec<u8>, u64)>,
	pub total_difficulty: u64,
	pub n_outputs_ever: u64,
	pub n_kernels_ever: u64,
	/// every kernel excess on this branch (for the recomputed kernel sum)
	pub kernel_excesses: Vec<Commitment>,
	/// total kernel offset claimed by the branch tip header
	pub total_offset: Option<BlindingFactor>,
}

#[derive(Clone, Debug, PartialEq, Eq)]
pub enum ModelReject {
	DoubleSpendOrMissing(String),
	DuplicateOutput(String),
	ImmatureCoinbase(String),
	InputFeatureMismatch(String),
	LockHeight(u64),
	Nrd(String),
}

impl Model {
	pub fn genesis(g: &Block) -> Model {
		let mut m = Model::default();
		for o in g.outputs() {
			m.utxo.insert(
				o.commitment().0.to_vec(),
				UtxoEntry {
					features: o.features(),
					height: 0,
				},
			);
		}
		m.total_difficulty = g.header.total_difficulty().to_num();
		m.n_outputs_ever = g.outputs().len() as u64;
		m.n_kernels_ever = g.kernels().len() as u64;
		m
	}

	/// Apply a block body on top of this state (which must be the state of
	/// the block's parent). Pure replay: spends remove, outputs insert.
	pub fn apply(&self, b: &Block) -> Result<Model, ModelReject> {
		let mut m = self.clone();
		let h = self.height + 1;
		let maturity = global::coinbase_maturity();
		// (commitment, features claimed by the input if the encoding carries them)
		let inputs: Vec<(Commitment, Option<OutputFeatures>)> = match b.inputs() {
			grin_core::core::Inputs::FeaturesAndCommit(v) => v.iter().map(|i| (i.commitment(), Some(i.features))).collect(),
			grin_core::core::Inputs::CommitOnly(v) => v.iter().map(|c| (c.commitment(), None)).collect(),
		};
		// duplicate outputs are checked against the parent's state (before spends)
		for o in b.outputs() {
			if self.utxo.contains_key(&o.commitment().0.to_vec()) {
				return Err(ModelReject::DuplicateOutput(commit_hex(&o.commitment())));
			}
		}
		for (c, f) in inputs.iter() {
			let key = c.0.to_vec();
			match m.utxo.remove(&key) {
				None => return Err(ModelReject::DoubleSpendOrMissing(commit_hex(c))),
				Some(e) => {
					if let Some(f) = f {
						if *f != e.features {
							return Err(ModelReject::InputFeatureMismatch(commit_hex(c)));
						}
					}
					if e.features.is_coinbase() && e.height + maturity > h {
						return Err(ModelReject::ImmatureCoinbase(commit_hex(c)));
					}
				}
			}
		}
		for o in b.outputs() {
			m.utxo.insert(
				o.commitment().0.to_vec(),
				UtxoEntry {
					features: o.features(),
					height: h,
				},
			);
		}
		for k in b.kernels() {
			match k.features {
				KernelFeatures::HeightLocked { lock_height, .. } => {
					if lock_height > h {
						return Err(ModelReject::LockHeight(lock_height));
					}
				}
				KernelFeatures::NoRecentDuplicate { relative_height, .. } => {
					// NRD kernels need header version >= 4: on AutomatedTesting
					// version = min(5, 1 + height/3), i.e. height >= 9
					if h < 9 {
						return Err(ModelReject::Nrd("before the third hard fork".into()));
					}
					let rel: u64 = relative_height.into();
					let ex = k.excess.0.to_vec();
					if let Some((_, ph)) = m.nrd.iter().rev().find(|(e, _)| *e == ex) {
						// refused iff the previous instance sits at height > h − rel
						if *ph + rel > h {
							return Err(ModelReject::Nrd(format!("prev at {} rel {} now {}", ph, rel, h)));
						}
					}
					m.nrd.push((ex, h));
				}
				_ => {}
			}
		}
		m.height = h;
		m.total_difficulty = b.header.total_difficulty().to_num();
		m.n_outputs_ever += b.outputs().len() as u64;
		m.n_kernels_ever += b.kernels().len() as u64;
		m.kernel_excesses.extend(b.kernels().iter().map(|k| k.excess));
		m.total_offset = Some(b.header.total_kernel_offset.clone());
		Ok(m)
	}
}

// ------------------------------------------------------------------ chain wrapper

#[derive(Clone, Debug)]
pub struct Accepted {
	pub hash: Hash,
	pub status: &'static str,
}

#[derive(Default)]
pub struct RecAdapter {
	pub log: Mutex<Vec<Accepted>>,
}

impl ChainAdapter for RecAdapter {
	fn block_accepted(&self, block: &Block, status: BlockStatus, _opts: Options) {
		let s = match status {
			BlockStatus::Next { .. } => "next",
			BlockStatus::Fork { .. } => "fork",
			BlockStatus::Reorg { .. } => "reorg",
		};
		self.log.lock().unwrap().push(Accepted {
			hash: block.hash(),
			status: s,
		});
	}
}

/// Plain dev genesis without a reward. (The repository's test helper adds a
/// reward output to the genesis body without updating the genesis header's
/// MMR sizes, so that output is wiped by the first rewind to the genesis
/// header — a fixture quirk, not something to model.)
pub fn genesis_block() -> Block {
	grin_core::genesis::genesis_dev()
}

pub struct ChainBox {
	pub dir: PathBuf,
	pub chain: Option<Arc<Chain>>,
	pub adapter: Arc<RecAdapter>,
	pub genesis: Block,
	/// archive mode (Chain::init's flag): compaction prunes the MMRs but keeps every block in the database
	pub archive: bool,
}

impl ChainBox {
	pub fn open(dir: &Path) -> Result<ChainBox, String> {
		Self::open_mode(dir, false)
	}

	pub fn open_mode(dir: &Path, archive: bool) -> Result<ChainBox, String> {
		let adapter = Arc::new(RecAdapter::default());
		let genesis = genesis_block();
		let chain = Chain::init(
			dir.to_string_lossy().to_string(),
			adapter.clone(),
			genesis.clone(),
			pow::verify_size,
			archive,
			None,
		)
		.map_err(|e| format!("Chain::init: {:?}", e))?;
		Ok(ChainBox {
			dir: dir.to_path_buf(),
			chain: Some(Arc::new(chain)),
			adapter,
			genesis,
			archive,
		})
	}

	pub fn c(&self) -> &Chain {
		self.chain.as_ref().expect("chain open")
	}

	/// shared handle (for the transaction pool adapter); must be dropped before reopen
	pub fn arc(&self) -> Arc<Chain> {
		self.chain.as_ref().expect("chain open").clone()
	}

	/// close and reopen from the same directory
	pub fn reopen(&mut self) -> Result<(), String> {
		self.chain = None; // drop closes LMDB env and files
		let chain = Chain::init(
			self.dir.to_string_lossy().to_string(),
			self.adapter.clone(),
			self.genesis.clone(),
			pow::verify_size,
			self.archive,
			None,
		)
		.map_err(|e| format!("Chain::init on reopen: {:?}", e))?;
		self.chain = Some(Arc::new(chain));
		Ok(())
	}

	pub fn close(&mut self) {
		self.chain = None;
	}

	/// Reopen; a failure is classified as narrowly as possible. `nrd_on_best_chain`:
	/// the best chain carries NRD kernels (so the NRD kernel index is rebuilt at start-up).
	pub fn reopen_classified(&mut self, nrd_on_best_chain: bool) -> Result<(), Fail> {
		let (head, hhead) = (self.c().head().ok(), self.c().header_head().ok());
		match self.reopen() {
			Ok(()) => Ok(()),
			Err(e) => {
				let diverged = match (&head, &hhead) {
					(Some(h), Some(hh)) => h.last_block_h != hh.last_block_h,
					_ => false,
				};
				// two manifestations of the one call site: the walk by height runs out of headers, or it attributes
				// kernels to the header-chain fork's heights and then trips over its own relative-height rule
				if diverged && nrd_on_best_chain && (e.contains("get header hash by height") || e.contains("NRDRelativeHeight")) {
					Err(Fail::new(
						"reopen-failed:nrd-index-rebuilt-along-header-chain-fork",
						format!(
							"{} — body head {:?} and header head {:?} are on different forks and the best chain carries NRD kernels: the NRD kernel index is rebuilt at start-up by walking the HEADER chain by height (verify_kernel_pos_index), which runs out of headers when the header-chain fork commits to a smaller kernel MMR",
							e,
							head.map(|h| (h.height, h.last_block_h)),
							hhead.map(|h| (h.height, h.last_block_h))
						),
					))
				} else {
					Err(Fail::new(
						"reopen-failed",
						format!("{} [body head {:?}, header head {:?}, heads on different forks: {}, NRD kernels on the best chain: {}]", e, head.map(|h| (h.height, h.last_block_h)), hhead.map(|h| (h.height, h.last_block_h)), diverged, nrd_on_best_chain),
					))
				}
			}
		}
	}
}

impl Drop for ChainBox {
	fn drop(&mut self) {
		self.chain = None;
		let _ = std::fs::remove_dir_all(&self.dir);
	}
}

/// copy a directory tree (for prepared base chains)
pub fn copy_dir(from: &Path, to: &Path) -> std::io::Result<()> {
	std::fs::create_dir_all(to)?;
	for e in std::fs::read_dir(from)? {
		let e = e?;
		let p = e.path();
		let t = to.join(e.file_name());
		if p.is_dir() {
			copy_dir(&p, &t)?;
		} else {
			std::fs::copy(&p, &t)?;
		}
	}
	Ok(())
}

// ------------------------------------------------------------------ block building

#[derive(Clone, Copy, Debug, PartialEq, Eq)]
pub enum PowMode {
	/// real cuckatoo proof meeting the retarget difficulty
	Real,
	/// Options::SKIP_POW world: arbitrary difficulty increment, random proof
	Skip(u64),
}

/// Build the unmined block: body, timestamp, difficulty fields. Roots are
/// set by `finish_block`.
pub fn block_template(
	chain: &Chain,
	prev: &BlockHeader,
	txs: &[Transaction],
	cb_key: u32,
	dt: i64,
	mode: PowMode,
) -> Result<Block, String> {
	let fees: u64 = txs.iter().map(|t| t.fee()).sum();
	let (_, o, k) = LIB.coinbase(fees, cb_key);
	block_template_with_reward(chain, prev, txs, o, k, dt, mode)
}

pub fn block_template_with_reward(
	chain: &Chain,
	prev: &BlockHeader,
	txs: &[Transaction],
	o: Output,
	k: TxKernel,
	dt: i64,
	mode: PowMode,
) -> Result<Block, String> {
	let (diff, scaling) = match mode {
		PowMode::Real => {
			let it = grin_chain::store::DifficultyIter::from(prev.hash(), chain.store());
			let info = consensus::next_difficulty(prev.height + 1, it);
			(info.difficulty, info.secondary_scaling)
		}
		PowMode::Skip(d) => (Difficulty::from_num(d), prev.pow.secondary_scaling),
	};
	let mut b = Block::from_reward(prev, txs, o, k, diff).map_err(|e| format!("from_reward: {:?}", e))?;
	b.header.timestamp = prev.timestamp + Duration::seconds(dt.max(1));
	b.header.pow.secondary_scaling = scaling;
	Ok(b)
}

/// set roots/sizes from the chain (read-only extension on the block's own fork)
pub fn set_roots(chain: &Chain, b: &mut Block) -> Result<(), String> {
	chain.set_txhashset_roots(b).map_err(|e| format!("set_txhashset_roots: {:?}", e))
}

/// mine (real PoW) or attach a random proof (SKIP_POW worlds)
pub fn seal(b: &mut Block, mode: PowMode, prev: &BlockHeader) -> Result<(), String> {
	match mode {
		PowMode::Real => {
			let diff = b.header.total_difficulty() - prev.total_difficulty();
			let edge_bits = global::min_edge_bits();
			b.header.pow.proof.edge_bits = edge_bits;
			b.header.pow.nonce = 0;
			pow::pow_size(&mut b.header, diff, global::proofsize(), edge_bits).map_err(|e| format!("pow_size: {:?}", e))
		}
		PowMode::Skip(_) => {
			// deterministic pseudo-random proof (never verified under SKIP_POW). The
			// header hash is the hash of the packed proof nonces ONLY, so the proof
			// must carry enough entropy to keep header hashes distinct: 8 x 10 bits
			// taken from a hash of the whole pre-PoW header.
			let h = crate::refmmr::blake(&[b"gv-skip-pow", &b.header.pre_pow()]);
			let nonces: Vec<u64> = (0..global::proofsize()).map(|i| (((h[(2 * i) % 32] as u64) << 8) | h[(2 * i + 1) % 32] as u64) & 0x3ff).collect();
			b.header.pow.proof = pow::Proof {
				edge_bits: global::min_edge_bits(),
				nonces,
			};
			b.header.pow.proof.edge_bits = global::min_edge_bits();
			Ok(())
		}
	}
}

pub fn opts(mode: PowMode) -> Options {
	match mode {
		PowMode::Real => Options::NONE,
		PowMode::Skip(_) => Options::SKIP_POW,
	}
}

/// (bytes of data file in use, map size) of the LMDB environment a chain in `dir` lives in. The map size is read
/// from the two meta pages of data.mdb (MDB_meta.mm_mapsize, 32 bytes into each page; it only ever grows).
pub fn db_usage(dir: &Path) -> Result<(u64, u64), String> {
	use std::io::{Read, Seek, SeekFrom};
	let p = dir.join("multi_lmdb").join("data.mdb");
	let used = std::fs::metadata(&p).map_err(|e| format!("{:?}: {}", p, e))?.len();
	let mut f = std::fs::File::open(&p).map_err(|e| e.to_string())?;
	let mut map = 0u64;
	for off in [32u64, 4096 + 32] {
		let mut b = [0u8; 8];
		f.seek(SeekFrom::Start(off)).map_err(|e| e.to_string())?;
		f.read_exact(&mut b).map_err(|e| e.to_string())?;
		map = map.max(u64::from_le_bytes(b));
	}
	// a never-resized environment records 0 until the first resize: LMDB's default map
	if map == 0 {
		map = 10_485_760;
	}
	Ok((used, map))
}

/// Fills the LMDB environment of the chain in `dir` (through a second store handle on the same environment,
/// in a database of its own that the chain never looks at) until it is `slack` bytes short of the 90 % mark at
/// which the store enlarges the map: the next few blocks then cross it, so the enlargement — which waits for
/// every open transaction and blocks new ones — happens in the middle of whatever the case does next, as it
/// does every now and then on a node that has been running for a while.
pub fn fill_db_near_resize(dir: &Path, slack: u64) -> Result<(u64, u64), String> {
	let store = grin_store::Store::new(&dir.to_string_lossy(), None, Some("gvfill"), vec![], None, None).map_err(|e| format!("fill store: {:?}", e))?;
	let mut k = 0u64;
	loop {
		let (used, map) = db_usage(dir)?;
		let target = (map as f64 * 0.9) as u64;
		if used + slack >= target {
			return Ok((used, map));
		}
		let gap = target - slack - used;
		let len = if gap > 512 * 1024 { 60_000 } else if gap > 64 * 1024 { 12_000 } else { 3_000 };
		let mut b = store.batch().map_err(|e| format!("fill batch: {:?}", e))?;
		b.put(None, format!("fill{:08}", k).as_bytes(), &vec![0xa5u8; len]).map_err(|e| format!("fill put: {:?}", e))?;
		b.commit().map_err(|e| format!("fill commit: {:?}", e))?;
		k += 1;
		if k > 50_000 {
			return Err(format!("fill did not converge: used {} map {}", used, map));
		}
	}
}

/// Header-first delivery of a block the world has built (RawBlock::hdr): 1 = process_block_header, 2 =
/// sync_block_headers with a one-header chunk. The header of a model-valid block must be accepted (a header
/// that is already known is reported as success by both calls); for a negative block nothing is asserted —
/// the builder may not have been able to give it sizes and roots — but whatever the call does must leave the
/// body chain alone, which the caller's scan after the operation checks.
pub fn header_first(chain: &Chain, block: &Block, hdr: u8, model_valid: bool, mode: PowMode) -> PResult {
	let r = match hdr {
		0 => return Ok(()),
		1 => chain.process_block_header(&block.header, opts(mode)),
		_ => {
			let sync_head = chain.header_head().map_err(|e| Fail::new("header_head-err", format!("{:?}", e)))?;
			chain.sync_block_headers(&[block.header.clone()], sync_head, opts(mode)).map(|_| ())
		}
	};
	if let Err(e) = r {
		if model_valid {
			return Err(Fail::new(
				"valid-header-rejected",
				format!("header of a model-valid block (h={}) refused when delivered first (mode {}): {}", block.header.height, hdr, err_name(&e)),
			));
		}
	}
	Ok(())
}

/// Build, root, seal.
pub fn make_block(
	chain: &Chain,
	prev: &BlockHeader,
	txs: &[Transaction],
	cb_key: u32,
	dt: i64,
	mode: PowMode,
) -> Result<Block, String> {
	let mut b = block_template(chain, prev, txs, cb_key, dt, mode)?;
	set_roots(chain, &mut b)?;
	seal(&mut b, mode, prev)?;
	Ok(b)
}

pub fn err_name<E: std::fmt::Debug>(e: &E) -> String {
	let s = format!("{:?}", e);
	truncate(&s, 160)
}

/// Enumerate what the chain reports as unspent for a list of commitments.
pub fn chain_unspent(chain: &Chain, commits: &[Commitment]) -> Result<BTreeMap<Vec<u8>, UtxoEntry>, String> {
	let mut m = BTreeMap::new();
	for c in commits {
		match chain.get_unspent(*c) {
			Ok(Some((id, pos))) => {
				m.insert(
					c.0.to_vec(),
					UtxoEntry {
						features: id.features,
						height: pos.height,
					},
				);
			}
			Ok(None) => {}
			Err(e) => return Err(format!("get_unspent({}) error {:?}", commit_hex(c), e)),
		}
	}
	Ok(m)
}
