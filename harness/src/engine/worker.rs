//! Worker child processes (filled in with C11 / C09).

pub fn child_main(_args: &[String]) -> i32 {
	2
}
