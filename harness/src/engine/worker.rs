//! Worker child processes (filled in with C11 / C09).

pub fn child_main(args: &[String]) -> i32 {
	if args.first().map(|s| s.as_str()) == Some("proofhash") {
		// debug aid: is bulletproof creation deterministic across processes?
		crate::world::init_global();
		let o = crate::world::OutRef { amount: 12345, key: 77, cb: false };
		let out = crate::world::LIB.output(&o);
		let h = crate::refmmr::blake(&[&out.proof.proof[..out.proof.plen]]);
		println!("{}", h.iter().map(|b| format!("{:02x}", b)).collect::<String>());
		return 0;
	}
	2
}
