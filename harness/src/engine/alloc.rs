//! Counting global allocator: when tracking is switched on it records the
//! largest single request and the peak of live bytes (for C11's "never
//! over-allocates" clause). Off by default (two relaxed atomic loads per call).

use std::alloc::{GlobalAlloc, Layout, System};
use std::sync::atomic::{AtomicBool, AtomicUsize, Ordering};

pub struct Counting;

static ON: AtomicBool = AtomicBool::new(false);
static LIVE: AtomicUsize = AtomicUsize::new(0);
static PEAK: AtomicUsize = AtomicUsize::new(0);
static LARGEST: AtomicUsize = AtomicUsize::new(0);
/// requests above this size fail (return null) while tracking is on, so that
/// an absurd allocation becomes an observable allocation failure instead of
/// taking the machine down; 0 = no limit
static LIMIT: AtomicUsize = AtomicUsize::new(0);

unsafe impl GlobalAlloc for Counting {
	unsafe fn alloc(&self, l: Layout) -> *mut u8 {
		if ON.load(Ordering::Relaxed) {
			let sz = l.size();
			LARGEST.fetch_max(sz, Ordering::Relaxed);
			let lim = LIMIT.load(Ordering::Relaxed);
			if lim != 0 && sz > lim {
				return std::ptr::null_mut();
			}
			let live = LIVE.fetch_add(sz, Ordering::Relaxed) + sz;
			PEAK.fetch_max(live, Ordering::Relaxed);
		}
		System.alloc(l)
	}
	unsafe fn dealloc(&self, p: *mut u8, l: Layout) {
		if ON.load(Ordering::Relaxed) {
			// saturating: blocks allocated before tracking started may be freed now
			let _ = LIVE.fetch_update(Ordering::Relaxed, Ordering::Relaxed, |v| Some(v.saturating_sub(l.size())));
		}
		System.dealloc(p, l)
	}
	unsafe fn realloc(&self, p: *mut u8, l: Layout, new_size: usize) -> *mut u8 {
		if ON.load(Ordering::Relaxed) {
			LARGEST.fetch_max(new_size, Ordering::Relaxed);
			let lim = LIMIT.load(Ordering::Relaxed);
			if lim != 0 && new_size > lim {
				return std::ptr::null_mut();
			}
			if new_size > l.size() {
				let live = LIVE.fetch_add(new_size - l.size(), Ordering::Relaxed) + (new_size - l.size());
				PEAK.fetch_max(live, Ordering::Relaxed);
			} else {
				let _ = LIVE.fetch_update(Ordering::Relaxed, Ordering::Relaxed, |v| Some(v.saturating_sub(l.size() - new_size)));
			}
		}
		System.realloc(p, l, new_size)
	}
}

/// start tracking from zero; `limit` = largest request allowed (0 = none)
pub fn start(limit: usize) {
	LIVE.store(0, Ordering::SeqCst);
	PEAK.store(0, Ordering::SeqCst);
	LARGEST.store(0, Ordering::SeqCst);
	LIMIT.store(limit, Ordering::SeqCst);
	ON.store(true, Ordering::SeqCst);
}

/// stop tracking; returns (largest single request, peak live bytes since start)
pub fn stop() -> (usize, usize) {
	ON.store(false, Ordering::SeqCst);
	(LARGEST.load(Ordering::SeqCst), PEAK.load(Ordering::SeqCst))
}
