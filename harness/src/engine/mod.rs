//! Engine shared by all property checks: context (tier, seed), evidence
//! accounting, proptest runner wrapper, replay files, known findings,
//! scratch directories, panic capture.

use proptest::strategy::{Strategy, ValueTree};
use proptest::test_runner::{Config, RngAlgorithm, RngSeed, TestCaseError, TestError, TestRunner};
use serde_json::{json, Value};
use std::cell::RefCell;
use std::collections::{BTreeMap, HashSet};
use std::hash::{Hash, Hasher};
use std::path::{Path, PathBuf};
use std::sync::atomic::{AtomicBool, AtomicU64, Ordering};
use std::sync::{Arc, Mutex};
use std::time::Instant;

pub mod alloc;
pub mod worker;

#[derive(Clone, Copy, PartialEq, Eq, Debug)]
pub enum Tier {
	Quick,
	Thorough,
}

/// Harness-side problem (exit code 2), never a violation.
#[derive(Debug)]
pub struct HarnessError(pub String);

impl<T: std::fmt::Display> From<T> for HarnessError {
	fn from(e: T) -> Self {
		HarnessError(e.to_string())
	}
}

pub type HResult<T> = Result<T, HarnessError>;

pub struct Ctx {
	pub id: String,
	pub tier: Tier,
	pub seed: u64,
	pub root: PathBuf,
	pub level: &'static str,
	pub start: Instant,
	pub ev: Ev,
	pub violations: AtomicU64,
	known: Vec<Known>,
	known_printed: Mutex<HashSet<String>>,
	pub stop: AtomicBool,
	scratch: PathBuf,
}

#[derive(Clone, Debug)]
struct Known {
	property: String,
	signature: String,
	what: String,
	status: String,
}

#[derive(Default)]
pub struct EvInner {
	pub evaluations: u64,
	pub shapes: HashSet<u64>,
	pub classes: BTreeMap<String, u64>,
	pub samples: Vec<Value>,
	pub sample_keys: HashSet<String>,
	pub rule: Vec<String>,
	pub assumptions: Vec<String>,
	pub extra: BTreeMap<String, Value>,
	pub excluded_known: u64,
	pub exhaustive: Option<bool>,
}

#[derive(Default)]
pub struct Ev(pub Mutex<EvInner>);

pub fn hash_of<T: Hash>(t: &T) -> u64 {
	#[allow(deprecated)]
	let mut h = std::hash::SipHasher::new();
	t.hash(&mut h);
	h.finish()
}

impl Ev {
	/// one executed case
	pub fn eval(&self) {
		self.0.lock().unwrap().evaluations += 1;
	}
	pub fn evals(&self, n: u64) {
		self.0.lock().unwrap().evaluations += n;
	}
	/// a case that is non-trivial by the property's rule, with its shape descriptor
	pub fn nontrivial<T: Hash>(&self, shape: &T) {
		let h = hash_of(shape);
		self.0.lock().unwrap().shapes.insert(h);
	}
	pub fn class(&self, name: &str) {
		*self.0.lock().unwrap().classes.entry(name.to_string()).or_insert(0) += 1;
	}
	pub fn class_n(&self, name: &str, n: u64) {
		*self.0.lock().unwrap().classes.entry(name.to_string()).or_insert(0) += n;
	}
	/// keep up to `max` samples per key
	pub fn sample(&self, key: &str, v: impl FnOnce() -> Value) {
		let mut g = self.0.lock().unwrap();
		if g.sample_keys.contains(key) || g.samples.len() >= 12 {
			return;
		}
		g.sample_keys.insert(key.to_string());
		let val = v();
		g.samples.push(json!({ "part": key, "case": val }));
	}
	pub fn rule(&self, s: &str) {
		let mut g = self.0.lock().unwrap();
		if !g.rule.iter().any(|r| r == s) {
			g.rule.push(s.to_string());
		}
	}
	pub fn assume(&self, s: &str) {
		let mut g = self.0.lock().unwrap();
		if !g.assumptions.iter().any(|r| r == s) {
			g.assumptions.push(s.to_string());
		}
	}
	pub fn extra(&self, k: &str, v: Value) {
		self.0.lock().unwrap().extra.insert(k.to_string(), v);
	}
	pub fn set_exhaustive(&self, b: bool) {
		self.0.lock().unwrap().exhaustive = Some(b);
	}
	pub fn class_count(&self, name: &str) -> u64 {
		*self.0.lock().unwrap().classes.get(name).unwrap_or(&0)
	}
}

thread_local! {
	static LAST_PANIC: RefCell<Option<String>> = RefCell::new(None);
	static QUIET_PANIC: RefCell<bool> = RefCell::new(false);
}

pub fn install_panic_hook() {
	let default = std::panic::take_hook();
	std::panic::set_hook(Box::new(move |info| {
		let msg = if let Some(s) = info.payload().downcast_ref::<&str>() {
			s.to_string()
		} else if let Some(s) = info.payload().downcast_ref::<String>() {
			s.clone()
		} else {
			"<non-string panic>".to_string()
		};
		let loc = info
			.location()
			.map(|l| format!("{}:{}", l.file(), l.line()))
			.unwrap_or_default();
		let full = format!("{} @ {}", msg, loc);
		let quiet = QUIET_PANIC.with(|q| *q.borrow());
		LAST_PANIC.with(|p| *p.borrow_mut() = Some(full));
		if !quiet {
			default(info);
		}
	}));
}

/// A property failure: `sig` names the root-cause class (used for known
/// findings), `msg` is the human-readable detail.
#[derive(Clone, Debug)]
pub struct Fail {
	pub sig: String,
	pub msg: String,
}

impl Fail {
	pub fn new(sig: impl Into<String>, msg: impl Into<String>) -> Fail {
		Fail { sig: sig.into(), msg: msg.into() }
	}
}

pub type PResult = Result<(), Fail>;

/// shorthand: `fail!("sig", "fmt {}", x)`
#[macro_export]
macro_rules! fail {
	($sig:expr, $($arg:tt)*) => {
		return Err($crate::engine::Fail::new($sig, format!($($arg)*)))
	};
}

/// `ensure!(cond, "sig", "fmt {}", x)`
#[macro_export]
macro_rules! ensure {
	($cond:expr, $sig:expr, $($arg:tt)*) => {
		if !($cond) {
			return Err($crate::engine::Fail::new($sig, format!($($arg)*)));
		}
	};
}

/// Run f, turning a panic into a Fail with signature `panic@file:line`.
pub fn catch<T>(f: impl FnOnce() -> T) -> Result<T, Fail> {
	QUIET_PANIC.with(|q| *q.borrow_mut() = true);
	LAST_PANIC.with(|p| *p.borrow_mut() = None);
	let r = std::panic::catch_unwind(std::panic::AssertUnwindSafe(f));
	QUIET_PANIC.with(|q| *q.borrow_mut() = false);
	match r {
		Ok(v) => Ok(v),
		Err(_) => {
			let m = LAST_PANIC.with(|p| p.borrow_mut().take()).unwrap_or_else(|| "? @ ?".into());
			let loc = m.rsplit(" @ ").next().unwrap_or("?").to_string();
			Err(Fail::new(format!("panic@{}", loc), format!("PANIC: {}", m)))
		}
	}
}

impl Ctx {
	pub fn new(id: &str, tier: Tier, seed: u64, root: PathBuf, level: &'static str) -> Ctx {
		let known = load_known(&root);
		let base = if Path::new("/dev/shm").is_dir() {
			PathBuf::from("/dev/shm")
		} else {
			std::env::temp_dir()
		};
		let scratch = base.join(format!("gv-{}-{}-{}", id, std::process::id(), seed));
		Ctx {
			id: id.to_string(),
			tier,
			seed,
			root,
			level,
			start: Instant::now(),
			ev: Ev::default(),
			violations: AtomicU64::new(0),
			known,
			known_printed: Mutex::new(HashSet::new()),
			stop: AtomicBool::new(false),
			scratch,
		}
	}

	pub fn quick(&self) -> bool {
		self.tier == Tier::Quick
	}

	/// pick a count by tier
	pub fn n(&self, quick: u64, thorough: u64) -> u64 {
		let base = match self.tier {
			Tier::Quick => quick,
			Tier::Thorough => thorough,
		};
		// GV_SCALE lets sensitivity runs shrink/grow the work
		match std::env::var("GV_SCALE").ok().and_then(|s| s.parse::<f64>().ok()) {
			Some(f) => ((base as f64) * f).ceil().max(1.0) as u64,
			None => base,
		}
	}

	pub fn derive_seed(&self, tag: &str, k: u64) -> u64 {
		hash_of(&(self.seed, &self.id, tag, k))
	}

	/// a fresh scratch directory for one case/part
	pub fn scratch_dir(&self, tag: &str) -> PathBuf {
		static CTR: AtomicU64 = AtomicU64::new(0);
		let n = CTR.fetch_add(1, Ordering::SeqCst);
		let d = self.scratch.join(format!("{}-{}", tag, n));
		let _ = std::fs::remove_dir_all(&d);
		std::fs::create_dir_all(&d).expect("scratch dir");
		d
	}

	pub fn cleanup(&self) {
		let _ = std::fs::remove_dir_all(&self.scratch);
	}

	pub fn is_known(&self, signature: &str) -> bool {
		self.known
			.iter()
			.any(|k| k.property == self.id && k.status == "open" && k.signature == signature)
	}

	/// Report a failing case. `signature` identifies the root cause class as
	/// narrowly as the property can (call site + input class). If it is listed
	/// in KNOWN_FINDINGS.json (status open) a KNOWN-FINDING line is printed,
	/// otherwise the case is written to out/<id>/ and a VIOLATION line printed.
	pub fn report(&self, part: &str, signature: &str, case: Value, msg: &str) {
		if let Some(k) = self
			.known
			.iter()
			.find(|k| k.property == self.id && k.status == "open" && k.signature == signature)
		{
			let mut p = self.known_printed.lock().unwrap();
			if p.insert(k.what.clone()) {
				println!("KNOWN-FINDING: property={} {} [{}]", self.id, k.what, k.signature);
			}
			self.ev.0.lock().unwrap().excluded_known += 1;
			return;
		}
		let n = self.violations.fetch_add(1, Ordering::SeqCst);
		let body = json!({
			"property": self.id,
			"part": part,
			"signature": signature,
			"message": msg,
			"seed": self.seed,
			"case": case,
		});
		let s = serde_json::to_string_pretty(&body).unwrap();
		let h = hash_of(&s);
		let dir = self.root.join("out").join(&self.id);
		let _ = std::fs::create_dir_all(&dir);
		let path = dir.join(format!("{}-{:016x}.json", part.replace('/', "_"), h));
		let _ = std::fs::write(&path, s);
		if n < 20 {
			println!("VIOLATION property={} replay={}", self.id, path.display());
			eprintln!("  part={} signature={} msg={}", part, signature, truncate(msg, 600));
		}
	}

	/// A failure with this signature was observed inside a generated case. If
	/// it is a listed open finding: count it (class known_finding_hits:<sig>,
	/// printed as a KNOWN-FINDING line by the parent process at the end) and
	/// return true so the caller can end the case quietly and the search goes on.
	pub fn known_hit(&self, signature: &str) -> bool {
		if self.is_known(signature) {
			self.ev.class(&format!("known_finding_hits:{}", signature));
			self.ev.0.lock().unwrap().excluded_known += 1;
			true
		} else {
			false
		}
	}

	/// print KNOWN-FINDING lines for findings hit inside child processes / cases
	pub fn print_known_hits(&self) {
		let keys: Vec<String> = self.ev.0.lock().unwrap().classes.keys().filter(|k| k.starts_with("known_finding_hits:")).cloned().collect();
		for k in keys {
			let sig = &k["known_finding_hits:".len()..];
			if let Some(kn) = self.known.iter().find(|x| x.property == self.id && x.status == "open" && x.signature == sig) {
				let mut p = self.known_printed.lock().unwrap();
				if p.insert(kn.what.clone()) {
					println!("KNOWN-FINDING: property={} {} [{}]", self.id, kn.what, kn.signature);
				}
			}
		}
	}

	pub fn violated(&self) -> bool {
		self.violations.load(Ordering::SeqCst) > 0
	}

	pub fn write_evidence(&self) {
		let g = self.ev.0.lock().unwrap();
		let mut cov = serde_json::Map::new();
		cov.insert("evaluations".into(), json!(g.evaluations));
		cov.insert("distinct_nontrivial".into(), json!(g.shapes.len()));
		cov.insert("rule".into(), json!(g.rule.join(" | ")));
		cov.insert("samples".into(), json!(g.samples));
		cov.insert("classes".into(), json!(g.classes));
		cov.insert("excluded_known".into(), json!(g.excluded_known));
		if let Some(e) = g.exhaustive {
			cov.insert("exhaustive".into(), json!(e));
		}
		for (k, v) in &g.extra {
			cov.insert(k.clone(), v.clone());
		}
		let ev = json!({
			"property_id": self.id,
			"tier": if self.quick() {"quick"} else {"thorough"},
			"seed": self.seed,
			"level": self.level,
			"coverage": Value::Object(cov),
			"assumptions": g.assumptions,
			"wall_s": self.start.elapsed().as_secs_f64(),
			"violations": self.violations.load(Ordering::SeqCst),
		});
		let dir = self.root.join("evidence");
		let _ = std::fs::create_dir_all(&dir);
		let p = dir.join(format!("{}.json", self.id));
		std::fs::write(&p, serde_json::to_string_pretty(&ev).unwrap()).expect("write evidence");
	}
}

pub fn truncate(s: &str, n: usize) -> String {
	if s.len() <= n {
		s.to_string()
	} else {
		let mut e = n;
		while !s.is_char_boundary(e) {
			e -= 1;
		}
		format!("{}…", &s[..e])
	}
}

fn load_known(root: &Path) -> Vec<Known> {
	let p = root.join("KNOWN_FINDINGS.json");
	let Ok(s) = std::fs::read_to_string(&p) else {
		return vec![];
	};
	let Ok(v) = serde_json::from_str::<Value>(&s) else {
		eprintln!("warning: KNOWN_FINDINGS.json does not parse");
		return vec![];
	};
	let mut out = vec![];
	if let Some(a) = v.get("findings").and_then(|a| a.as_array()) {
		for e in a {
			// one entry = one finding (one root cause); it lists the exact failing signature, or, where
			// the same root cause shows at several call sites / crash points, each of them ("signatures")
			let mut sigs: Vec<String> = e["signatures"].as_array().map(|a| a.iter().filter_map(|x| x.as_str().map(|s| s.to_string())).collect()).unwrap_or_default();
			if let Some(s) = e["signature"].as_str() {
				sigs.push(s.to_string());
			}
			for signature in sigs {
				out.push(Known {
					property: e["property"].as_str().unwrap_or("").to_string(),
					signature,
					what: e["what"].as_str().unwrap_or("").to_string(),
					status: e["status"].as_str().unwrap_or("open").to_string(),
				});
			}
		}
	}
	out
}

/// Result of a proptest search: the minimal failing value and its message.
pub struct Failure<V> {
	pub value: V,
	pub fail: Fail,
}

fn config(seed: u64, cases: u32) -> Config {
	let mut c = Config::default();
	c.cases = cases;
	c.failure_persistence = None;
	c.rng_algorithm = RngAlgorithm::ChaCha;
	c.rng_seed = RngSeed::Fixed(seed);
	c.max_shrink_iters = 2000;
	// shrinking is bounded by wall-clock (expensive histories re-run per step)
	c.max_shrink_time = std::env::var("GV_SHRINK_MS").ok().and_then(|s| s.parse().ok()).unwrap_or(40_000);
	c.max_local_rejects = 1_000_000;
	c.max_global_rejects = 1_000_000;
	c.verbose = 0;
	c.source_file = None;
	c
}

/// Run `cases` generated cases of `strat` through `f` on this thread.
/// `f` returns Err(message) on a property failure (panics are converted).
/// Evidence counting must be done by `f` through `counting` — it is true
/// only until the first failure, so shrink re-runs are not counted.
pub fn pbt<S, F>(seed: u64, cases: u32, strat: &S, stop: &AtomicBool, f: F) -> Option<Failure<S::Value>>
where
	S: Strategy,
	S::Value: Clone + std::fmt::Debug,
	F: Fn(&S::Value, bool) -> PResult,
{
	let mut runner = TestRunner::new(config(seed, cases));
	let failed = AtomicBool::new(false);
	let last: Mutex<Option<Fail>> = Mutex::new(None);
	let res = runner.run(strat, |v| {
		if stop.load(Ordering::SeqCst) && !failed.load(Ordering::SeqCst) {
			return Ok(());
		}
		let counting = !failed.load(Ordering::SeqCst);
		let r = match catch(|| f(&v, counting)) {
			Ok(r) => r,
			Err(p) => Err(p),
		};
		match r {
			Ok(()) => Ok(()),
			Err(m) => {
				failed.store(true, Ordering::SeqCst);
				let msg = m.msg.clone();
				*last.lock().unwrap() = Some(m);
				Err(TestCaseError::fail(msg))
			}
		}
	});
	match res {
		Ok(()) => None,
		Err(TestError::Fail(_reason, value)) => {
			// re-run the minimal value to get its own signature (the last
			// failure seen during shrinking may belong to a different value)
			let fail = match catch(|| f(&value, false)) {
				Ok(Err(fl)) | Err(fl) => fl,
				Ok(Ok(())) => last.lock().unwrap().clone().unwrap_or(Fail::new("flaky", "minimal case passed on re-run")),
			};
			Some(Failure { value, fail })
		}
		Err(TestError::Abort(reason)) => {
			eprintln!("proptest aborted: {}", reason);
			None
		}
	}
}

/// Run K independent runners on K threads with derived seeds; returns the
/// first failure found (others are told to stop).
pub fn pbt_par<S, F, I>(
	ctx: &Ctx,
	tag: &str,
	total_cases: u64,
	threads: usize,
	make_strat: impl Fn() -> S + Sync,
	thread_init: I,
	f: F,
) -> Option<Failure<S::Value>>
where
	S: Strategy,
	S::Value: Clone + std::fmt::Debug + Send,
	F: Fn(&S::Value, bool) -> PResult + Sync,
	I: Fn() + Sync,
{
	let threads = threads.max(1).min(total_cases.max(1) as usize);
	let per = ((total_cases + threads as u64 - 1) / threads as u64) as u32;
	let stop = AtomicBool::new(false);
	let out: Mutex<Option<Failure<S::Value>>> = Mutex::new(None);
	std::thread::scope(|sc| {
		for k in 0..threads {
			let seed = ctx.derive_seed(tag, k as u64);
			let stop = &stop;
			let out = &out;
			let f = &f;
			let make_strat = &make_strat;
			let thread_init = &thread_init;
			std::thread::Builder::new()
				.stack_size(64 << 20)
				.spawn_scoped(sc, move || {
					thread_init();
					let strat = make_strat();
					if let Some(fl) = pbt(seed, per, &strat, stop, f) {
						stop.store(true, Ordering::SeqCst);
						let mut g = out.lock().unwrap();
						if g.is_none() {
							*g = Some(fl);
						}
					}
				})
				.unwrap();
		}
	});
	let r = out.lock().unwrap().take();
	r
}

/// Generate one value from a strategy with a fixed seed (used by samplers).
pub fn sample_one<S: Strategy>(seed: u64, strat: &S) -> S::Value {
	let mut runner = TestRunner::new(config(seed, 1));
	strat.new_tree(&mut runner).unwrap().current()
}

/// Replays committed regression files for this property. Each file is the
/// JSON written by `Ctx::report`; `f(part, case)` returns Err on violation.
pub fn run_replays(ctx: &Ctx, f: &dyn Fn(&str, &Value) -> PResult) -> HResult<()> {
	let dir = ctx.root.join("replays").join(&ctx.id);
	let Ok(rd) = std::fs::read_dir(&dir) else {
		return Ok(());
	};
	let mut files: Vec<PathBuf> = rd.filter_map(|e| e.ok()).map(|e| e.path()).collect();
	files.sort();
	for p in files {
		if p.extension().and_then(|e| e.to_str()) != Some("json") {
			continue;
		}
		replay_file(ctx, &p, f)?;
		ctx.ev.class("replayed_regression_files");
	}
	Ok(())
}

pub fn replay_file(
	ctx: &Ctx,
	p: &Path,
	f: &dyn Fn(&str, &Value) -> PResult,
) -> HResult<()> {
	let s = std::fs::read_to_string(p)?;
	let v: Value = serde_json::from_str(&s)?;
	let part = v["part"].as_str().unwrap_or("").to_string();
	let case = v["case"].clone();
	let r = match catch(|| f(&part, &case)) {
		Ok(r) => r,
		Err(p) => Err(p),
	};
	if let Err(m) = r {
		ctx.report(&part, &m.sig, case, &m.msg);
	}
	Ok(())
}

pub fn arc<T>(t: T) -> Arc<T> {
	Arc::new(t)
}

// ---------------------------------------------------------------- process-level parallelism
//
// grin funnels all libsecp work through one process-wide mutex
// (util::static_secp_instance), so threads do not scale for crypto-bound
// properties. `pbt_proc` therefore runs K child processes (`gv child pbt …`),
// each a single-threaded seeded proptest runner over its share of the cases,
// and merges their evidence. Seeds are derived per child from VERIF_SEED.

/// signature of a property module's `part` function: run `cases` generated
/// cases of `part` with `seed`, single-threaded; return the minimal failing case.
pub type PartFn = fn(&Ctx, &str, u64, u32) -> Option<(Value, Fail)>;

impl Ev {
	pub fn export(&self) -> Value {
		let g = self.0.lock().unwrap();
		json!({
			"evaluations": g.evaluations,
			"shapes": g.shapes.iter().collect::<Vec<_>>(),
			"classes": g.classes,
			"samples": g.samples,
			"excluded_known": g.excluded_known,
			"extra": g.extra,
		})
	}
	pub fn merge(&self, v: &Value) {
		let mut g = self.0.lock().unwrap();
		g.evaluations += v["evaluations"].as_u64().unwrap_or(0);
		if let Some(a) = v["shapes"].as_array() {
			for s in a {
				if let Some(x) = s.as_u64() {
					g.shapes.insert(x);
				}
			}
		}
		if let Some(m) = v["classes"].as_object() {
			for (k, n) in m {
				*g.classes.entry(k.clone()).or_insert(0) += n.as_u64().unwrap_or(0);
			}
		}
		if let Some(a) = v["samples"].as_array() {
			for s in a {
				let key = s["part"].as_str().unwrap_or("").to_string();
				if !g.sample_keys.contains(&key) && g.samples.len() < 12 {
					g.sample_keys.insert(key);
					g.samples.push(s.clone());
				}
			}
		}
		g.excluded_known += v["excluded_known"].as_u64().unwrap_or(0);
		if let Some(m) = v["extra"].as_object() {
			for (k, x) in m {
				// numeric extras are summed, others kept from the first child
				let merged = match (g.extra.get(k).and_then(|o| o.as_f64()), x.as_f64()) {
					(Some(a), Some(b)) if x.is_u64() => json!((a + b) as u64),
					(Some(a), Some(b)) => json!(a.max(b)),
					_ => x.clone(),
				};
				g.extra.insert(k.clone(), merged);
			}
		}
	}
}

pub fn pbt_proc(ctx: &Ctx, part: &str, total_cases: u64, procs: usize) -> Option<(Value, Fail)> {
	let procs = procs.max(1).min(total_cases.max(1) as usize);
	let per = (total_cases + procs as u64 - 1) / procs as u64;
	let exe = std::env::current_exe().expect("current_exe");
	let tmp = ctx.scratch_dir(&format!("proc-{}", part.replace('/', "_")));
	let mut kids = vec![];
	for k in 0..procs {
		let out = tmp.join(format!("{}.json", k));
		let seed = ctx.derive_seed(part, k as u64);
		let child = std::process::Command::new(&exe)
			.args([
				"child",
				"pbt",
				&ctx.id,
				part,
				if ctx.quick() { "quick" } else { "thorough" },
				&seed.to_string(),
				&per.to_string(),
				out.to_str().unwrap(),
			])
			.env("GV_ROOT", &ctx.root)
			.stdin(std::process::Stdio::null())
			.stdout(std::process::Stdio::null())
			.spawn()
			.expect("spawn child");
		kids.push((k, child, out));
	}
	let mut first: Option<(Value, Fail)> = None;
	// watchdog: a child that does not finish within a generous deadline (a call of the code under test
	// that never returns, in a part that has no oracle for it) is killed; that is a harness-level
	// outcome (exit 2, "inconclusive"), never a violation
	let deadline = std::time::Instant::now()
		+ std::time::Duration::from_secs(std::env::var("GV_PROC_TIMEOUT_S").ok().and_then(|x| x.parse().ok()).unwrap_or(if ctx.quick() { 1200 } else { 6 * 3600 }));
	for (k, mut child, out) in kids {
		let status = loop {
			match child.try_wait().expect("wait child") {
				Some(st) => break st,
				None => {
					if std::time::Instant::now() > deadline {
						let _ = child.kill();
						let st = child.wait().expect("wait child");
						eprintln!("child {} of part {} killed by the watchdog", k, part);
						ctx.ev.class("children_killed_by_watchdog");
						break st;
					}
					std::thread::sleep(std::time::Duration::from_millis(50));
				}
			}
		};
		let body = std::fs::read_to_string(&out).ok().and_then(|s| serde_json::from_str::<Value>(&s).ok());
		match body {
			Some(v) => {
				ctx.ev.merge(&v["evidence"]);
				if first.is_none() && !v["failure"].is_null() {
					let f = &v["failure"];
					first = Some((
						f["case"].clone(),
						Fail::new(f["sig"].as_str().unwrap_or("?"), f["msg"].as_str().unwrap_or("?")),
					));
				}
			}
			None => {
				// the child died without reporting: the in-flight case is unknown,
				// which is a harness-level problem unless a property says otherwise
				eprintln!("child {} of part {} exited with {:?} without a result file", k, part, status);
				ctx.ev.class("children_died_without_result");
				if first.is_none() {
					first = Some((
						json!({"child": k, "seed": ctx.derive_seed(part, k as u64), "cases": per}),
						Fail::new("harness:child-died", format!("child process for part {} died: {:?}", part, status)),
					));
				}
			}
		}
	}
	let _ = std::fs::remove_dir_all(&tmp);
	first
}

/// body of `gv child pbt …`
pub fn child_pbt(ctx: &Ctx, part_fn: PartFn, part: &str, seed: u64, cases: u32, out: &Path) -> i32 {
	let r = match catch(|| part_fn(ctx, part, seed, cases)) {
		Ok(r) => r,
		Err(f) => Some((json!({"note": "panic outside a case"}), f)),
	};
	let failure = match r {
		Some((case, f)) => json!({"case": case, "sig": f.sig, "msg": f.msg}),
		None => Value::Null,
	};
	let body = json!({"evidence": ctx.ev.export(), "failure": failure});
	let tmp = out.with_extension("tmp");
	if std::fs::write(&tmp, serde_json::to_string(&body).unwrap()).is_ok() {
		let _ = std::fs::rename(&tmp, out);
	}
	ctx.cleanup();
	0
}

/// helper for `part` functions: run a strategy single-threaded and turn the
/// minimal failure into (json, Fail)
pub fn run_part<S, F>(ctx: &Ctx, seed: u64, cases: u32, strat: &S, f: F) -> Option<(Value, Fail)>
where
	S: Strategy,
	S::Value: Clone + std::fmt::Debug + serde::Serialize,
	F: Fn(&S::Value, bool) -> PResult,
{
	pbt(seed, cases, strat, &ctx.stop, f).map(|fl| (serde_json::to_value(&fl.value).unwrap_or(Value::Null), fl.fail))
}
