//! gv — property-based verification harness for mimblewimble/grin.
//! usage: gv <ID> quick|thorough        run a property check
//!        gv <ID> --replay <file>       replay one saved failing case
//!        gv child <kind> ...           internal worker / crash children

#![allow(dead_code)]

mod elems;
mod engine;
mod props;
mod refmmr;
mod world;

use engine::*;

#[global_allocator]
static GLOBAL: engine::alloc::Counting = engine::alloc::Counting;
use std::path::PathBuf;

struct PropDef {
	id: &'static str,
	level: &'static str,
	run: fn(&Ctx) -> HResult<()>,
	replay: fn(&Ctx, &str, &serde_json::Value) -> PResult,
	part: Option<PartFn>,
}

fn props() -> Vec<PropDef> {
	macro_rules! p {
		($id:expr, $lvl:expr, $m:ident) => {
			PropDef {
				id: $id,
				level: $lvl,
				run: props::$m::run,
				replay: props::$m::replay,
				part: None,
			}
		};
		($id:expr, $lvl:expr, $m:ident, part) => {
			PropDef {
				id: $id,
				level: $lvl,
				run: props::$m::run,
				replay: props::$m::replay,
				part: Some(props::$m::part),
			}
		};
	}
	vec![
		p!("C01", "exploration", c01, part),
		p!("C02", "exploration", c02, part),
		p!("C03", "exploration", c03, part),
		p!("C04", "exploration", c04, part),
		p!("C05", "exploration", c05),
		p!("C06", "exploration", c06, part),
		p!("C07", "exploration", c07),
		p!("C08", "exploration", c08, part),
		p!("C09", "fault_enumeration", c09),
		p!("C10", "exploration", c10),
		p!("C11", "exploration", c11, part),
		p!("C12", "exploration", c12, part),
		p!("C13", "exploration", c13, part),
		p!("C14", "exploration", c14, part),
		p!("C15", "exploration", c15, part),
		p!("C16", "exploration", c16, part),
		p!("C17", "exploration", c17, part),
		p!("C18", "exploration", c18, part),
		p!("C19", "exploration", c19, part),
		p!("C20", "exploration", c20),
	]
}

fn root_dir() -> PathBuf {
	if let Ok(r) = std::env::var("GV_ROOT") {
		return PathBuf::from(r);
	}
	// harness/target/release/gv → ../../..
	let exe = std::env::current_exe().unwrap();
	exe.parent()
		.and_then(|p| p.parent())
		.and_then(|p| p.parent())
		.and_then(|p| p.parent())
		.map(|p| p.to_path_buf())
		.unwrap_or_else(|| PathBuf::from("/verif"))
}

fn main() {
	let args: Vec<String> = std::env::args().collect();
	if args.len() < 3 {
		eprintln!("usage: gv <ID> quick|thorough | gv <ID> --replay <file>");
		std::process::exit(2);
	}
	install_panic_hook();
	if args[1] == "child" {
		// a child whose parent has gone (killed by its own wall-clock guard, or by the caller) must not
		// linger: it may be inside a call of the code under test that never returns
		{
			let ppid = || -> Option<u64> {
				let st = std::fs::read_to_string("/proc/self/stat").ok()?;
				let rest = &st[st.rfind(')')? + 2..];
				rest.split(' ').nth(1)?.parse().ok()
			};
			if let Some(p0) = ppid() {
				std::thread::spawn(move || loop {
					std::thread::sleep(std::time::Duration::from_secs(2));
					match ppid() {
						Some(p) if p == p0 => {}
						_ => std::process::exit(3),
					}
				});
			}
		}
		if args[2] == "pbt" && args.len() >= 9 {
			// gv child pbt <ID> <part> <tier> <seed> <cases> <outfile>
			let defs = props();
			let def = defs.iter().find(|d| d.id == args[3]).expect("property");
			let tier = if args[5] == "thorough" { Tier::Thorough } else { Tier::Quick };
			let seed: u64 = args[6].parse().expect("seed");
			let cases: u32 = args[7].parse().expect("cases");
			let ctx = Ctx::new(&args[3], tier, seed, root_dir(), def.level);
			let code = child_pbt(&ctx, def.part.expect("part fn"), &args[4], seed, cases, std::path::Path::new(&args[8]));
			std::process::exit(code);
		}
		if args[2] == "x" && args.len() >= 4 {
			// gv child x <ID> <args...>: property-specific worker / crash children
			let rest = &args[4..];
			let code = match args[3].as_str() {
				"C08" => props::c08::child(rest),
				"C11" => props::c11::child(rest),
				"C18" => props::c18::child(rest),
				"C19" => props::c19::child(rest),
				_ => 2,
			};
			std::process::exit(code);
		}
		if args[2] == "crash" && args.len() >= 6 {
			// gv child crash run|check <scenario.json> <dir> [out.json]
			std::process::exit(props::c09::child(&args[3..]));
		}
		std::process::exit(engine::worker::child_main(&args[2..]));
	}
	let id = args[1].to_uppercase();
	let defs = props();
	let Some(def) = defs.iter().find(|d| d.id == id) else {
		eprintln!("unknown property {}", id);
		std::process::exit(2);
	};
	let seed: u64 = std::env::var("VERIF_SEED")
		.ok()
		.and_then(|s| s.trim().parse::<i128>().ok())
		.map(|v| v as u64)
		.unwrap_or(1);
	let root = root_dir();

	if args[2] == "--replay" {
		let Some(path) = args.get(3) else {
			eprintln!("--replay needs a path");
			std::process::exit(2);
		};
		let ctx = Ctx::new(&id, Tier::Quick, seed, root, def.level);
		let r = replay_file(&ctx, std::path::Path::new(path), &|p, c| (def.replay)(&ctx, p, c));
		ctx.cleanup();
		if let Err(e) = r {
			eprintln!("harness error: {}", e.0);
			std::process::exit(2);
		}
		if ctx.violated() {
			std::process::exit(1);
		}
		println!("replay passed: property {} holds on {}", id, path);
		std::process::exit(0);
	}

	let tier = match args[2].as_str() {
		"quick" => Tier::Quick,
		"thorough" => Tier::Thorough,
		other => match std::env::var("VERIF_TIER").as_deref() {
			Ok("thorough") => Tier::Thorough,
			Ok("quick") => Tier::Quick,
			_ => {
				eprintln!("unknown tier {}", other);
				std::process::exit(2);
			}
		},
	};
	let ctx = Ctx::new(&id, tier, seed, root, def.level);
	// wall-clock guard: inconclusive (exit 2), never a violation
	let guard_s: u64 = std::env::var("GV_MAX_S")
		.ok()
		.and_then(|s| s.parse().ok())
		.unwrap_or(if tier == Tier::Quick { 1500 } else { 6 * 3600 });
	std::thread::spawn(move || {
		std::thread::sleep(std::time::Duration::from_secs(guard_s));
		eprintln!("INCONCLUSIVE: wall-clock guard of {} s hit", guard_s);
		std::process::exit(2);
	});

	let mut code = 0;
	let r1 = run_replays(&ctx, &|p, c| (def.replay)(&ctx, p, c));
	let r2 = match catch(|| (def.run)(&ctx)) {
		Ok(r) => r,
		Err(f) => Err(HarnessError(format!("harness panicked outside a case: {}", f.msg))),
	};
	for r in [r1, r2] {
		if let Err(e) = r {
			eprintln!("harness error: {}", e.0);
			code = 2;
		}
	}
	ctx.print_known_hits();
	ctx.write_evidence();
	ctx.cleanup();
	if ctx.violated() {
		code = 1;
	}
	{
		let g = ctx.ev.0.lock().unwrap();
		println!(
			"{} {:?} seed={} evaluations={} distinct_nontrivial={} violations={} wall={:.1}s",
			id,
			tier,
			seed,
			g.evaluations,
			g.shapes.len(),
			ctx.violations.load(std::sync::atomic::Ordering::SeqCst),
			ctx.start.elapsed().as_secs_f64()
		);
		for (k, v) in &g.classes {
			println!("  class {:<44} {}", k, v);
		}
	}
	std::process::exit(code);
}
