//! Reference Merkle mountain range, written from the definition and
//! independent of grin's position arithmetic and hashing helpers:
//!   * forest of perfect binary trees, one per set bit of the leaf count,
//!     largest first;
//!   * 0-based postorder numbering assigned by an actual traversal;
//!   * leaf hash  = blake2b-256(pos_be64 ‖ data)
//!   * node hash  = blake2b-256(pos_be64 ‖ left ‖ right)
//!   * root       = peaks bagged right to left: acc = H(size_be64 ‖ peak ‖ acc)
//!   * empty MMR  = 32 zero bytes.

use blake2_rfc::blake2b::Blake2b;

pub type H32 = [u8; 32];

pub fn blake(parts: &[&[u8]]) -> H32 {
	let mut b = Blake2b::new(32);
	for p in parts {
		b.update(p);
	}
	let mut out = [0u8; 32];
	out.copy_from_slice(b.finalize().as_bytes());
	out
}

pub fn leaf_hash(pos: u64, data: &[u8]) -> H32 {
	blake(&[&pos.to_be_bytes(), data])
}

pub fn node_hash(pos: u64, l: &H32, r: &H32) -> H32 {
	blake(&[&pos.to_be_bytes(), l, r])
}

#[derive(Clone, Debug)]
pub struct Node {
	pub pos: u64,
	pub height: u32,
	pub hash: H32,
	/// index into `nodes` of children (None for leaves)
	pub left: Option<usize>,
	pub right: Option<usize>,
	pub parent: Option<usize>,
	/// leaf insertion index for leaves
	pub leaf_idx: Option<u64>,
	/// leftmost / rightmost leaf positions under this node
	pub leftmost: u64,
	pub rightmost: u64,
}

/// Explicit MMR over `n` leaves.
#[derive(Clone, Debug)]
pub struct RefMmr {
	/// nodes indexed by postorder position
	pub nodes: Vec<Node>,
	/// node indices of the peaks, left to right
	pub peaks: Vec<usize>,
	pub n_leaves: u64,
}

impl RefMmr {
	/// Build from leaf data. `data[i]` is the serialized element of leaf i.
	pub fn build(data: &[Vec<u8>]) -> RefMmr {
		Self::build_with(data.len() as u64, &|i| Some(data[i as usize].clone()), &|_| None)
	}

	/// Structure-only build (hashes are zero) for position arithmetic checks.
	pub fn structure(n_leaves: u64) -> RefMmr {
		Self::build_with(n_leaves, &|_| None, &|_| None)
	}

	/// `leaf(i)` returns data for leaf i (None: zero hash); `override_hash(pos)`
	/// is unused by default and lets callers model externally supplied hashes.
	pub fn build_with(
		n: u64,
		leaf: &dyn Fn(u64) -> Option<Vec<u8>>,
		_override_hash: &dyn Fn(u64) -> Option<H32>,
	) -> RefMmr {
		let mut m = RefMmr {
			nodes: Vec::new(),
			peaks: Vec::new(),
			n_leaves: n,
		};
		let mut next_leaf = 0u64;
		// one perfect tree per set bit, most significant first
		for k in (0..64).rev() {
			if n & (1u64 << k) != 0 {
				let root = m.build_tree(k as u32, &mut next_leaf, leaf);
				m.peaks.push(root);
			}
		}
		m
	}

	fn build_tree(&mut self, height: u32, next_leaf: &mut u64, leaf: &dyn Fn(u64) -> Option<Vec<u8>>) -> usize {
		if height == 0 {
			let pos = self.nodes.len() as u64;
			let idx = *next_leaf;
			*next_leaf += 1;
			let hash = match leaf(idx) {
				Some(d) => leaf_hash(pos, &d),
				None => [0u8; 32],
			};
			self.nodes.push(Node {
				pos,
				height: 0,
				hash,
				left: None,
				right: None,
				parent: None,
				leaf_idx: Some(idx),
				leftmost: pos,
				rightmost: pos,
			});
			return pos as usize;
		}
		let l = self.build_tree(height - 1, next_leaf, leaf);
		let r = self.build_tree(height - 1, next_leaf, leaf);
		let pos = self.nodes.len() as u64;
		let hash = node_hash(pos, &self.nodes[l].hash, &self.nodes[r].hash);
		let (lm, rm) = (self.nodes[l].leftmost, self.nodes[r].rightmost);
		self.nodes.push(Node {
			pos,
			height,
			hash,
			left: Some(l),
			right: Some(r),
			parent: None,
			leaf_idx: None,
			leftmost: lm,
			rightmost: rm,
		});
		self.nodes[l].parent = Some(pos as usize);
		self.nodes[r].parent = Some(pos as usize);
		pos as usize
	}

	pub fn size(&self) -> u64 {
		self.nodes.len() as u64
	}

	pub fn peak_positions(&self) -> Vec<u64> {
		self.peaks.iter().map(|&i| self.nodes[i].pos).collect()
	}

	pub fn root(&self) -> H32 {
		bag(&self.peaks.iter().map(|&i| self.nodes[i].hash).collect::<Vec<_>>(), self.size())
	}

	/// position of leaf `idx`
	pub fn leaf_pos(&self, idx: u64) -> u64 {
		self.nodes
			.iter()
			.find(|n| n.leaf_idx == Some(idx))
			.map(|n| n.pos)
			.expect("leaf")
	}

	pub fn leaf_positions(&self) -> Vec<u64> {
		self.nodes.iter().filter(|n| n.height == 0).map(|n| n.pos).collect()
	}

	/// Reference Merkle path for the leaf at `pos`: siblings bottom-up inside
	/// its tree, then (if any peaks lie to the right) the bagged right-hand
	/// side, then the peaks to the left from nearest to farthest.
	pub fn merkle_path(&self, pos: u64) -> Vec<H32> {
		let mut path = vec![];
		let mut cur = pos as usize;
		while let Some(p) = self.nodes[cur].parent {
			let sib = if self.nodes[p].left == Some(cur) {
				self.nodes[p].right.unwrap()
			} else {
				self.nodes[p].left.unwrap()
			};
			path.push(self.nodes[sib].hash);
			cur = p;
		}
		let k = self.peaks.iter().position(|&i| i == cur).expect("peak");
		let rhs: Vec<H32> = self.peaks[k + 1..].iter().map(|&i| self.nodes[i].hash).collect();
		if !rhs.is_empty() {
			path.push(bag(&rhs, self.size()));
		}
		for &i in self.peaks[..k].iter().rev() {
			path.push(self.nodes[i].hash);
		}
		path
	}

	/// Verify (element, pos, path) against a root by the definition.
	pub fn verify_path(&self, root: &H32, data: &[u8], pos: u64, path: &[H32]) -> bool {
		if pos >= self.size() || self.nodes[pos as usize].height != 0 {
			return false;
		}
		let mut it = path.iter();
		let mut h = leaf_hash(pos, data);
		let mut cur = pos as usize;
		while let Some(p) = self.nodes[cur].parent {
			let Some(s) = it.next() else { return false };
			h = if self.nodes[p].left == Some(cur) {
				node_hash(p as u64, &h, s)
			} else {
				node_hash(p as u64, s, &h)
			};
			cur = p;
		}
		let k = self.peaks.iter().position(|&i| i == cur).expect("peak");
		let size = self.size();
		if k + 1 < self.peaks.len() {
			let Some(s) = it.next() else { return false };
			h = node_hash(size, &h, s);
		}
		for _ in 0..k {
			let Some(s) = it.next() else { return false };
			h = node_hash(size, s, &h);
		}
		it.next().is_none() && &h == root
	}
}

/// peaks bagged right to left with the size
pub fn bag(peaks: &[H32], size: u64) -> H32 {
	if peaks.is_empty() {
		return [0u8; 32];
	}
	let mut acc = *peaks.last().unwrap();
	for p in peaks[..peaks.len() - 1].iter().rev() {
		acc = node_hash(size, p, &acc);
	}
	acc
}

// ---- closed-form reference arithmetic for large positions (u128) ----

/// height of the node at 0-based postorder position `pos0`: walk to the
/// leftmost subtree of equal shape ("jump left") until the 1-based position
/// is of the form 2^k − 1.
pub fn ref_height(pos0: u64) -> u32 {
	let mut p: u128 = pos0 as u128 + 1;
	loop {
		let bits = 128 - p.leading_zeros();
		if p == (1u128 << bits) - 1 {
			return bits - 1;
		}
		// size of the perfect tree to the left
		p -= (1u128 << (bits - 1)) - 1;
	}
}

/// number of nodes of an MMR with n leaves = Σ over set bits k of (2^(k+1) − 1)
pub fn ref_mmr_size(n_leaves: u64) -> u128 {
	let mut s = 0u128;
	for k in 0..64 {
		if n_leaves & (1u64 << k) != 0 {
			s += (1u128 << (k + 1)) - 1;
		}
	}
	s
}

/// position of the leaf with insertion index n = size of the MMR holding the
/// n leaves before it.
pub fn ref_leaf_pos(n: u64) -> u128 {
	ref_mmr_size(n)
}

/// number of leaf positions < `size` (binary search on ref_leaf_pos)
pub fn ref_leaves_below(size: u64) -> u64 {
	// largest n with ref_leaf_pos(n) < size  → count = n+1 ; if none, 0
	if size == 0 {
		return 0;
	}
	let (mut lo, mut hi) = (0u64, u64::MAX / 2 + 1); // ref_leaf_pos is increasing
	// find first n with ref_leaf_pos(n) >= size
	while lo < hi {
		let mid = lo + (hi - lo) / 2;
		if ref_leaf_pos(mid) >= size as u128 {
			hi = mid;
		} else {
			lo = mid + 1;
		}
	}
	lo
}

/// (parent, sibling) of pos0 computed from heights alone: the node is a
/// right child iff the next position has a greater height.
pub fn ref_family(pos0: u64) -> (u128, u128) {
	let h = ref_height(pos0);
	let span: u128 = (1u128 << (h + 1)) - 1; // nodes in a subtree of this height
	if pos0 < u64::MAX && ref_height(pos0 + 1) == h + 1 {
		// right child: parent follows immediately, sibling is one subtree to the left
		(pos0 as u128 + 1, pos0 as u128 - span)
	} else {
		// left child: sibling subtree follows, then the parent
		(pos0 as u128 + span + 1, pos0 as u128 + span)
	}
}
