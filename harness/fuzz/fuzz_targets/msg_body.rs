#![no_main]
// C11 entry-point group "msg_body": input = [entry selector, version index, flags] ++ bytes
use libfuzzer_sys::fuzz_target;

fuzz_target!(|data: &[u8]| {
	gv_c11_fuzz::run("msg_body", data);
});
