#![no_main]
// C11 entry-point group "framing": input = [entry selector, version index, flags] ++ bytes
use libfuzzer_sys::fuzz_target;

fuzz_target!(|data: &[u8]| {
	gv_c11_fuzz::run("framing", data);
});
