//! Shared body of the C11 libFuzzer targets: the decoding core and the entry
//! point table are the harness's own `src/props/c11.rs` (module `dec`).
//!
//! Oracle inside the target: a panic anywhere in decoding or in the stateless
//! post-decode checks aborts (= libFuzzer crash), except at allowlisted
//! locations of open known findings (none at present; open findings are
//! excluded by construction exactly as in the quick tier); an unbounded number of primitive
//! reads or a spinning codec aborts; over-allocation and hangs are libFuzzer's
//! `-malloc_limit_mb` / `-rss_limit_mb` / `-timeout`.
#![allow(unexpected_cfgs)]

#[path = "../../src/props/c11.rs"]
pub mod c11;

use c11::dec::*;
use std::cell::RefCell;
use std::sync::Once;

/// panic locations of OPEN known findings: tolerated so that a campaign does
/// not rediscover one crash forever (file suffix, line). Empty: the open C11
/// findings are over-allocations (excluded by construction), not panics, and
/// the repaired ones must crash a campaign if they come back.
const ALLOW: &[(&str, u32)] = &[];

thread_local! {
	static LAST: RefCell<Option<(String, u32)>> = RefCell::new(None);
}

fn allowed(file: &str, line: u32) -> bool {
	ALLOW.iter().any(|(f, l)| file.ends_with(f) && *l == line)
}

fn init() {
	static ONCE: Once = Once::new();
	ONCE.call_once(|| {
		use grin_core::global;
		global::init_global_chain_type(global::ChainTypes::AutomatedTesting);
		global::init_global_nrd_enabled(true);
		global::init_global_accept_fee_base(1);
		global::set_local_nrd_enabled(true);
		global::set_local_accept_fee_base(1);
		let _ = uni();
		// replaces libfuzzer-sys's abort-on-panic hook
		std::panic::set_hook(Box::new(|info| {
			let (file, line) = info.location().map(|l| (l.file().to_string(), l.line())).unwrap_or_default();
			if allowed(&file, line) {
				LAST.with(|l| *l.borrow_mut() = Some((file, line)));
				return;
			}
			eprintln!("C11 fuzz: {} (stage {})", info, stage());
			std::process::abort();
		}));
	});
}

pub fn run(group: &'static str, input: &[u8]) {
	init();
	// sensitivity switch: prove that a panic outside the allowlist is a libFuzzer crash
	if input.starts_with(b"\xff\xffSELFTEST") && std::env::var_os("GV_C11_FUZZ_SELFTEST").is_some() {
		panic!("C11 fuzz self-test panic");
	}
	let Some((entry, version, flags, data)) = fuzz_split(group, input) else { return };
	let Some(def) = c11::dec::entry(entry) else { return };
	if def.text && std::str::from_utf8(data).is_err() {
		return;
	}
	if excluded_by_known(entry, flags, data).is_some() {
		return;
	}
	let mut out = Outcome::default();
	out.st.budget = 4 * data.len() as u64 + 4096;
	let r = std::panic::catch_unwind(std::panic::AssertUnwindSafe(|| decode_case(entry, version, flags, data, &mut out)));
	set_chain(0);
	if r.is_err() {
		// only allowlisted panics get here (the hook aborts on all others)
		return;
	}
	if out.st.budget_hit || (entry != E_CODEC && out.st.reads > 2 * data.len() as u64 + 64) {
		eprintln!("C11 fuzz: reads-unbounded:{} ({} reads on {} bytes)", def.name, out.st.reads, data.len());
		std::process::abort();
	}
	if out.spin {
		eprintln!("C11 fuzz: spin:{} ({} calls on {} bytes)", def.name, out.calls, data.len());
		std::process::abort();
	}
}
