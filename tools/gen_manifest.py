#!/usr/bin/env python3
"""Regenerates /verif/MANIFEST.json from the table below (keeps it valid at all times)."""
import json, os, subprocess, sys
ROOT = os.path.dirname(os.path.dirname(os.path.abspath(__file__)))

# id -> (engine, level, technique, text, note, design_ref)
CHECKS = {
 "C07": ("pbt", "exploration",
   "exhaustive small-size enumeration + proptest positions vs. an explicit reference MMR forest; enumerated single-field proof corruptions",
   "Every MMR size up to a bound is built leaf by leaf through grin's PMMR and compared (size, peak positions, root, every node hash, every Merkle path) with a forest of perfect trees built from the definition with its own blake2b hashing; every proof of every leaf is corrupted in each single way the property lists and must be refused; the pure position functions are compared with an explicitly traversed tree for all positions below 2^16 and with closed-form u128 arithmetic near powers of two and up to 2^62. Exploration, exhaustive only below the stated bounds.",
   "Trusts blake2-rfc and the harness's reference forest; hash collisions assumed impossible; advisory mmr_size field not mutated (excluded by the statement).",
   "DESIGN.md §5 C07"),
 "C02": ("pbt", "exploration",
   "model-based stateful proptest: delivery histories over a generated fork tree vs. a replay UTXO model",
   "Generated histories (valid blocks built from the model UTXO of a chosen parent incl. fork runs that win or lose, re-created commitments, in-block cut-through; single-defect negative blocks; reopen; compaction on a 90-block base chain; validate) are applied to a real Chain with real PoW. After every step get_unspent over every commitment ever created, the pmmr-index enumeration and validate_inputs / validate_tx probes are compared with the harness's replay model of the current head, and accept/reject of every block with the model's verdict. Sampled exploration; no exhaustiveness claimed.",
   "Oracle = harness replay model (spends remove, outputs insert, coinbase maturity, feature match). Blocks are rooted via Chain::set_txhashset_roots of the chain under test. Reorganisations after a compaction stay inside the horizon (generator precondition from the statement).",
   "DESIGN.md §5 C02"),
 "C03": ("pbt", "exploration",
   "proptest over fork trees and delivery permutations; reference max-work model over the set of connected delivered blocks; differential across permutations and vs. the winning chain alone",
   "Generated fork trees (SKIP_POW with arbitrary difficulty increments incl. ties, and real PoW), headers first then bodies in several generated permutations with duplicates and children-before-parents. After every delivery: the set of stored blocks equals the model's connected set, head work equals the maximum over it, every head move seen through the adapter strictly increases work and every more-work block becomes head; at quiescence head, roots and full unspent scan agree across permutations and with a fresh chain fed only the winning branch. Sampled exploration.",
   "Preconditions from the statement: headers known first, orphan capacity not exceeded. Tree blocks are built/rooted on a builder chain running the same code.",
   "DESIGN.md §5 C03"),
 "C01": ("pbt", "exploration",
   "proptest-generated valid transactions/blocks plus an enumerated single-field corruption catalogue with first-principles verdicts; replay-model sums via libsecp over fork/reorg histories",
   "Valid transactions are assembled by the harness (it knows every secret) from generated multisets of inputs, outputs, kernels, fees, shifts and offsets; every catalogue corruption is applied (including re-signed fee changes and compensated coinbase inflation that only the sum / coinbase rule can catch, and controls that must stay accepted) and fed to Transaction::validate, Block::validate and Chain::process_block with real PoW. Over generated fork/reorg histories the stored per-block sums are compared with sums recomputed from the replay model through libsecp and the full-state equation is checked after every head change. Sampled exploration; the catalogue is enumerated completely per generated object.",
   "Trusts libsecp256k1-zkp commit_sum and bulletproof verification; verdicts derived from the balance equation, signature coverage and proof binding. A bit flip in a bulletproof is only asserted inside the two leading scalars (other bits are malleable without creating value).",
   "DESIGN.md §5 C01"),
 "C04": ("pbt", "exploration",
   "proptest header chains with real PoW + enumerated single-field header mutations (re-mined so only the intended rule can reject) through three delivery paths; retarget windows vs. a u128 reference re-implementation; read-time policy mutations of mined headers",
   "A: valid AutomatedTesting chains crossing both retarget eras are mined; each listed field of a header is mutated singly, re-mined where the PoW pre-image changed, and delivered via process_block_header, sync_block_headers and process_block: rejected with header_head unchanged, while still-valid controls are accepted. B: next_difficulty on all chain types and eras over generated windows (incl. shorter than required) equals the harness's u128 reference and obeys minimum / damping / clamp bounds. C: UntrustedBlockHeader refuses out-of-policy encodings. Sampled exploration.",
   "Reference retarget written from the documented formulas; timestamps far from now except the FTL case (±1 h margin). Mutants of an already-known header hash are only asserted to store nothing and leave heads unchanged.",
   "DESIGN.md §5 C04"),
 "C05": ("pbt", "exploration",
   "exhaustive enumeration of all ascending 8-tuples in 4-bit graphs + solver-found cycles and near misses in larger graphs, against an independent graph-theoretic reference pinned to the published 42-cycle vectors",
   "For each of the five graph definitions the harness has its own siphash, endpoint derivation and acceptance test (count, ascent, range, all degrees two, one component of full length). Every ascending 8-tuple of hundreds of 4-bit graphs (12 870 tuples each; 5-bit graphs in thorough) and solver-found cycles with their near misses in 6-14 bit graphs are verified by grin and the reference: they must agree in both directions. Difficulty is recomputed in u128 from blake2b of the harness's own packing, Proof serialisation is compared bit-exactly with padding-bit flips refused, and create_pow_context / verify_size are checked per hard-fork era. Exhaustive only over the stated tiny graphs.",
   "The reference is pinned against the repository's 42-cycle vectors; completeness at production graph sizes rests on that plus small-graph exhaustiveness. Non-termination is detected by a sacrificial thread with a time limit (8 s for microsecond work).",
   "DESIGN.md §5 C05"),
 "C10": ("pbt", "exploration",
   "proptest typed value generators x protocol versions: encode/decode/re-encode round trip, hash independence, and one-rule canonical-form violations derived from valid encodings",
   "Typed generators for ~45 consensus and wire types (kernels of all variants, inputs in both encodings, outputs, transactions, headers at all edge-bit sizes, blocks, compact blocks, proofs, segments, bitmap segments, tips, handshake and sync messages) crossed with protocol versions 1, 2, 3, 1000: decode(encode(x)) == x with full consumption, identical re-encoding, a second reader agrees, identity hashes equal across versions and equal to blake2b of the defining bytes; unsupported (type, version) pairs fail with the documented error; each canonical-form rule is violated singly in a valid encoding and must be refused. Sampled exploration.",
   "Only values the repository's writers can produce are generated (IPv4-mapped IPv6 peer addresses excluded: deliberately unmapped). Trailing bytes after a complete value are measured, not asserted (the ser API has no end-of-value notion).",
   "DESIGN.md §5 C10"),
 "C12": ("pbt", "exploration",
   "proptest multisets of valid transactions; aggregate/deaggregate/hydrate compared with a commitment-set model, libsecp offset sums, and metamorphic relations (all permutations, all bracketings, all subsets)",
   "Multisets of 1-6 valid transactions (independent, chained for cut-through, multi-kernel, all kernel variants, zero and non-zero offsets incl. cancelling offsets) are aggregated; kernels, offset and inputs/outputs are compared with the harness's own set model; every permutation (n<=4) and bracketing gives the identical transaction; deaggregating every proper subset of unchained sets returns the aggregate of the rest; a block built from them equals every re-hydration of its compact form (random and injected nonces) from any grouping. Sampled exploration.",
   "Transactions share no commitment unless deliberately chained; deaggregation is not asserted for chained sets (statement).",
   "DESIGN.md §5 C12"),
 "C20": ("pbt", "exploration",
   "proptest over seeds, paths, amounts, switch modes and builder inputs: determinism (twin keychains), create/verify/rewind round trip incl. view keys and foreign seeds, mod-N reference arithmetic for blinding factors",
   "Two independently built keychains agree on keys and commitments (and commit equals amount*H + key*G on the harness's own context); created range proofs verify and rewind to exactly (amount, path, mode) with the same seed or the matching view key and to nothing with another seed; bit-flipped proofs never rewind to a different triple; blind_sum/split/add equal the harness's mod-N arithmetic byte for byte; transactions and coinbases from the builder validate, balance and their kernels verify. Sampled exploration.",
   "LegacyProofBuilder only at depth 3 with the regular switch and view keys only for SwitchCommitmentType::None on non-hardened suffixes (the documented domains); zero scalar results are outside the domain.",
   "DESIGN.md §5 C20"),
 "C06": ("pbt", "exploration",
   "twin (differential) execution under proptest-generated histories: chain A sees good and bad inputs, chain B only the good ones; state compared after every step, plus the C02 replay model",
   "Histories of good blocks (forks, reorg runs, reopen) interleaved with bad inputs failing at each validation stage — PoW, header rules, body validation, coinbase rule, UTXO checks, sums, root/size mismatch detected after the block was applied to the working state, bad header batches (second header bad; wrong prev_root inside the header extension), failing validate_tx through the read-only extension — and valid losing-fork blocks. After every step head, state roots, the unspent scan over all known commitments, stored sums and spend records of the last 12 best-chain blocks, and the result of every later delivery are compared between the twins; finally both pass validate(false) and a reopen with identical roots. Sampled exploration.",
   "Both twins run the code under test; divergence is the oracle, complemented by the independent replay model scan. header_head and remembered fork headers/blocks are excluded (statement).",
   "DESIGN.md §5 C06"),
 "C13": ("pbt", "exploration",
   "model-based stateful proptest: boundary placements of coinbase spends, height locks and NRD kernels on fork trees vs. a branch-local replay model; pool probes around each threshold",
   "Chains past the NRD hard fork receive blocks whose time-locked elements sit one below, at and one above their thresholds (coinbase maturity, lock_height, NRD relative height with shared excesses), on the main chain, on fork runs that win or lose (first instance or coinbase on the other side of the fork point, rewound away by a reorg) and across reopen; accept/reject of every block must equal the verdict of the harness's branch-local model. A fresh transaction pool (stem and fluff) is probed at head heights around each threshold and must admit exactly the transactions minable in the next block. Sampled exploration.",
   "NRD rule modelled exactly as worded in the statement; NRD acceptance by the pool is only required once the head header is at version 4.",
   "DESIGN.md §5 C13"),
 "C09": ("fault", "fault_enumeration",
   "exhaustive crash-point enumeration (process killed at every instrumented durable step) over fixed and proptest-generated scenarios, recovery compared with an uninterrupted twin run",
   "For each scenario (plain extension, losing fork block, reorg with spends on both sides, header-only reorg, compaction, compaction followed by a block, plus generated variations) a trace run numbers every durable step (file truncate/write/fsync, temp-file rename, file replace, LMDB commit incl. nested commits, MMR syncs, chain commits); for EVERY step n a child process performs the action on a copy of the prepared directory and aborts at step n, and a second process reopens it with Chain::init, checks head membership, validate(false), presence of best-chain records, re-delivers the scenario's chain above the reopened head and must end on the head, roots and unspent set of the uninterrupted run. Exhaustive over the points of each scenario, sampled over scenarios. The unchanged tree violates the property in several windows; these are listed in KNOWN_FINDINGS.json by (scenario kind, file group being persisted, failure class) and printed as KNOWN-FINDING lines.",
   "Crash = process death at an instrumented point (abort, nothing flushed): data handed to the kernel survives. Torn writes and lost fsyncs are out of scope. Hooks H2 (cfg grin_verif) provide the points.",
   "DESIGN.md §5 C09"),
 "C14": ("pbt", "exploration",
   "model-based stateful proptest over a real chain + TransactionPool wired like the node; invariant checked after every operation",
   "Generated histories of submissions (fresh, children/grandchildren incl. two pooled parents, conflicting, duplicates, aggregates of pooled transactions, below minimum fee incl. fee shift, over weight, stem and fluff), blocks carrying arbitrary subsets of pool transactions or conflicting spends, mining from prepare_mineable_transactions, winning and losing forks and small capacities that force eviction. After every operation: no two pooled transactions share an input, each input is unspent at the head (replay model) or created in the pool, the aggregate of the public pool and of public+stem validates and passes Chain::validate_tx, each pooled transaction pays the minimum fee for its weight, respects the weight limit and validates alone; the block built from the mineable set is within the weight limit and accepted by the chain. Sampled exploration.",
   "accept_fee_base 1000 and AutomatedTesting limits; the pool is reconciled exactly as servers/src/common/adapters.rs does.",
   "DESIGN.md §5 C14"),
 "C08": ("pbt", "exploration",
   "model-based stateful proptest over the store's PMMRBackend driven through the real caller's unit-of-work protocol, against an unpruned reference MMR; chain-level compaction differential",
   "Generated histories of units of work (optional rewind to an earlier boundary, appends and removals in shaped spend patterns — sibling pairs, whole subtrees, whole peaks, alternating leaves, re-added leaves — then sync or discard) interleaved with check_compact at earlier boundaries and reopen (incl. rebuilding a missing size file), on a fixed-size prunable and a variable-size non-prunable backend. After every unit, compaction and reopen: root, size, peaks, data and hash of every live leaf, every Merkle path (must equal the reference path and verify against the reference root), None for removed leaves, the unspent-leaf set and PMMR::validate are compared with an unpruned reference built with the harness's own hashing. Chain level: compaction of a 90-block chain leaves head, roots, the full unspent scan and validate(false) unchanged and an in-horizon fork is still accepted. Sampled exploration.",
   "The usage protocol is the real caller's (Extension in txhashset.rs): rewind first in a unit, per-block rewind bitmaps, compaction cutoffs never decrease, no rewind below a compaction cutoff (horizon rule).",
   "DESIGN.md §5 C08"),
 "C15": ("pbt", "exploration",
   "model-based stateful proptest at extension level (several 1024-bit chunks) and chain level against a from-scratch reference bitmap MMR; forged-bitmap blocks",
   "Extension level: histories of apply / rewind / reopen through the unit-of-work API the block pipeline uses, with synthetic blocks creating up to several thousand outputs (several chunks), spends concentrated in old chunks, at chunk boundaries, whole chunks, the last partial chunk, everything from a chunk on, and rewinds that shrink the output set across a chunk boundary; after every step the bitmap root inside the extension and as committed equals the root computed from scratch from the reference unspent index set with the harness's own MMR. Chain level: real mined blocks with forks, reorgs and reopen; committed root vs. from scratch over the replay model; each header's output_root equals H(size|pmmr_root|reference bitmap root); blocks committing to a wrong bitmap (bit dropped, bit added, extra chunk, empty) are rejected. Sampled exploration.",
   "Leaf indices of outputs are read from grin's output_pos index (checked by C02). Synthetic blocks use dummy range proofs (that path does not verify them) and mainnet size limits so that 1000-output blocks can be read back; every synthetic block creates at least one output, as every real block does.",
   "DESIGN.md §5 C15"),
 "C16": ("pbt", "exploration",
   "exhaustive small-tree enumeration + proptest store histories: honest segments vs. an instrumented reference reconstruction and every single-element corruption of what that reconstruction read; model-based end-to-end state sync (segments in generated arrival orders, state archive) between two real chains vs. a twin node that processed every block",
   "seg / bitmapseg: every segment (heights 0..6, every index) of in-memory and store-backed PMMRs over generated and exhaustively enumerated spend / prune / compaction histories validates, survives its wire round trip and equals the root of the harness's own forest; each element the reference reconstruction read (leaf datum, leaf position, needed leaf, stand-in hash, proof hash, identifier) is corrupted singly and must be refused; elements it did not read are counted, not asserted. sync: a receiver holding only headers assembles the archive state from a real source chain (130+ real-PoW blocks, > 1024 outputs, optional compaction) through Chain::segmenter / Chain::desegmenter in the node's call order with shuffled, duplicated, unrequested and dropped segments, or from txhashset_read / txhashset_write (also with one MMR file changed); after completion head, roots, unspent enumeration, get_unspent of every commitment and validate(false) equal those of the twin and the header roots re-merged by the harness; with one corrupted segment the receiver never holds the archive head with other roots and an honestly re-served segment still completes the sync. Sampled exploration; exhaustive only for the stated small bounds.",
   "Segment heights on the wire are restricted by the node to >= 7; the check uses the cfg(grin_verif) height override so that small chains yield 70..300 segments per tree. Chains start from a genesis with one reward output and kernel (the shape the desegmenter's position-0 handling assumes). Compaction on the source happens at head heights divisible by 10 (AutomatedTesting's horizon equals its state-sync threshold).",
   "DESIGN.md §5 C16"),
 "C18": ("pbt", "exploration",
   "model-based stateful proptest of nested LMDB batches against a nested-transaction map model; seeded concurrent plans with generation-stamped batches across automatic map resizes; crash-point enumeration around Batch::commit",
   "seq: generated sequences of batch / child (3 levels) / put / delete / get / exists / iter / commit / drop, reads through the Store while a batch is open, iterators held across later operations, and reopen, compared with a stack-of-overlays map model. conc: writer threads commit generation-stamped batches (some dropped, some with committed or dropped children) until the map has grown several times while readers take iterator snapshots and one thread holds an iterator across a resize: no partial batch, no lost generation, no error. crash: every crash point around commits of generated batch trees is enumerated; content after reopen is exactly pre- or post-batch. Schedules are sampled, not controlled.",
   "Per-batch volume stays far below the headroom guaranteed by the resize threshold (maybe_resize runs only when a batch is opened — the real callers' precondition). Thread interleavings are sampled by repetition.",
   "DESIGN.md §5 C18"),
 "C19": ("pbt", "exploration",
   "proptest message sequences over a loopback socket with generated fragmentation plans (incl. every single split point of short streams), re-encoding round trip; enumerated limit table; scripted handshake peers",
   "Sequences of real messages (mined headers, blocks and compact blocks, assembled transactions, segment responses cut from PMMRs, header lists of 0..89 items around the batching boundary 32, attachments up to 200 KB, unknown types) at protocol versions 1, 2, 3, 1000 are written through a loopback TCP socket under generated fragmentation (every single split point for short streams, multi-splits, 1-byte dribble, small delays) and must be read by the real Codec as the identical sequence (re-encoded bytes, batch concatenation with correct remaining, attachment bytes). Frames with wrong magic, over-limit lengths or inconsistent header counts are refused after at most the 11 header bytes with no allocation of the announced size (measured in a child process). The real handshake is driven against scripted peers for version negotiation, genesis mismatch and self-connection. Sampled exploration; exhaustive over split points of the short streams.",
   "Delays stay far inside the I/O timeouts. The length limit asserted is the one the code defines (4x the nominal maximum); the zone between nominal and 4x is recorded, not asserted.",
   "DESIGN.md §5 C19"),
 "C17": ("pbt", "exploration",
   "seeded multi-threaded stress of one Chain with schedule perturbation at lock-acquisition hooks; bracketed-read oracle against the replay model; final state vs. sequential twin",
   "A generated fork tree of real-PoW blocks is built sequentially; a fresh chain (empty or a copy of the 90-block base chain) is then used at once by peer threads delivering overlapping subsets of the blocks in perturbed orders, header-first threads, reader threads (head, get_block, get_unspent, validate_inputs, get_header_by_height, set_txhashset_roots on candidate children, segmenter) and a compaction thread, while a seeded plan sleeps/yields at the cfg(grin_verif) scheduling points. Every observed head must name a stored block with matching height and work, head work never decreases per reader, reads bracketed by two equal heads must equal the replay model of that head, set_txhashset_roots must reproduce the sequential roots, nothing panics, nothing stalls, and the final head, roots, full unspent scan and validate(false) equal the sequential result. Interleavings are sampled by repetition, not enumerated.",
   "A seed fixes the operation multiset and the perturbation plan, not the OS schedule; a stall is reported as a deadlock only if every unfinished worker is waiting for a lock, otherwise the run is inconclusive (exit 2). No liveness claim.",
   "DESIGN.md §5 C17"),
 "C11": ("pbt+fuzz", "exploration",
   "structure-aware mutation of valid encodings (seeded, deterministic) decoded in worker processes with a counting allocator and watchdog; libFuzzer targets with the same oracle in the thorough tier",
   "549 honest encodings of every message body type, framing, header lists, segments, bitmap segments, Merkle proofs (binary and hex) and proofs of work are mutated field-wise (every length/count field set to boundary and huge values, tag bytes swept, truncation at every offset, byte and bit flips, splices, random tails) plus pure random bytes; ~400k inputs per quick run are decoded through 47 entry points at protocol versions 1, 2, 3, 1000 in worker processes (so that an abort is attributed to the in-flight input), followed by the stateless post-decode checks (validate_read, hydrate, Segment::validate / validate_with against 16 MMR sizes with and without bitmaps, SegmentProof::validate). Oracle: no panic, no abort or signal, no hang (20 s watchdog, confirmed three times alone), largest single allocation <= 4 MiB + 64 x input and peak live <= 16 MiB + 64 x input (constants pinned against honest maximal messages, re-measured every run). Thorough: eight libFuzzer targets running the same decoding core.",
   "Release arithmetic (overflow checks off), as shipped. Two open findings (body buffered from the announced frame length) are excluded by construction and kept as directed cases.",
   "DESIGN.md §5 C11"),
}

NOT_YET = {}

EXTRA = {
 "C01": "transactions BUILT for an input listed twice (same or other feature byte): balanced in every sum, refused only by the no-duplicate-commitment rule; the error each corruption is refused with is a measured class (tx_refusal / block_refusal), so a corruption refused only for a side effect shows.",
 "C02": "a side fork taller than the best chain but lighter (free difficulty) that creates an output above the head's height and then tries to re-create it.",
 "C03": "trees that start with 51..56 plain blocks and branch off more than 50 blocks below the tip (free difficulty).",
 "C05": "cycles of the graph with the nonce range doubled that use a nonce beyond the edge range (found by the solver; must be refused for the range alone).",
 "C06": "a valid block's header over another valid block's body (same hash) followed by the genuine block.",
 "C07": "rewinds (PMMR::rewind histories and rewindable prefix views) to any position between the last kept leaf and the boundary.",
 "C08": "variable-size elements also on a prunable backend and in two encodings (one length byte; the u64 length prefix of Writer::write_bytes read back with read_bytes_len_prefix).",
 "C11": "the exclusion-by-construction for the two open over-allocation findings ends at the 10.8 MB the header rule accepts for the largest message type: longer announcements are generated and must be refused before anything is allocated.",
 "C12": "kernels paying 2^39, 2^39-1 or 2^40-1 so that the fees of a multiset exceed one 40-bit fee field; kernels of different variants sharing an excess.",
 "C13": "height locks 2 blocks, 2^32, 2^63-1, 2^63 ahead and at u64::MAX; NRD relative heights of a day and a week; one NRD excess 4-5 times at the closest legal spacing followed by a fork that repeats it.",
 "C14": "submissions with three height-locked kernels one of which lies beyond the next block.",
 "C15": "every second forged sibling arrives after the honest block (a fork block that does not become the head).",
 "C16": "base chains steered to exactly 1024 outputs at an archive height (a whole number of bitmap chunks) and base chains whose first 1024 outputs are all spent (an all-zero chunk below set bits).",
 "C18": "three quarters of the concurrent plans close and reopen the store in the middle of the warm-up, after two enlargements of the map.",
 "C19": "unknown-type frames of any length up to their limit (8 KiB +-1, 16 KiB, limit-1, limit); header lists of 511 and 512 items.",
 "C20": "seeds of 1..200 bytes, the other seed one bit apart anywhere or one byte longer / shorter.",
}

def main():
    props = [json.loads(l) for l in open(os.path.join(ROOT, "properties.jsonl"))]
    ids = [p["id"] for p in props]
    hooks = []
    hf = os.path.join(ROOT, "HOOK_COMMITS")
    if os.path.exists(hf):
        hooks = [l.split()[0] for l in open(hf) if l.strip() and not l.startswith("#")]
    checks = []
    for i in ids:
        if i not in CHECKS: continue
        eng, level, tech, text, note, ref = CHECKS[i]
        if i in EXTRA:
            text = text + " Also generated (rounds 7 and 8 of the seeded changes): " + EXTRA[i]
        checks.append({
            "property_id": i,
            "quick_cmd": f"./check {i} quick",
            "thorough_cmd": f"./check {i} thorough",
            "evidence_file": f"evidence/{i}.json",
            "replay_cmd_template": f"./check {i} --replay {{path}}",
            "engine": eng,
            "level_claimed": {"category": level, "text": text, "design_ref": ref},
            "level_note": note,
            "technique": tech,
        })
    na = [{"property_id": i, "reason": NOT_YET.get(i, "no check registered in this revision of /verif yet (generated-input check is designed in DESIGN.md §5 and is being built); not claimed until it exists and has been shown silent on the unchanged tree")} for i in ids if i not in CHECKS]
    m = {
        "version": 1,
        "setup_cmd": "./check build",
        "hooks": {
            "guard": "grin_verif",
            "enable": "rustc cfg flag: RUSTFLAGS='--cfg grin_verif' set by /verif/harness/.cargo/config.toml ([build] rustflags); the grin crates are path dependencies of the harness crate and are rebuilt from /repo's working tree by ./check",
            "baseline_off_cmd": "cd /repo && cargo nextest run --workspace --no-fail-fast --test-threads 8 --offline || cargo test --workspace --no-fail-fast --offline",
            "source_commits": hooks,
            "add_only": True,
        },
        "engines": [
            {"name": "fault", "path": "harness/src/props/c09.rs", "serves_properties": [c["property_id"] for c in checks if c["engine"] == "fault"],
             "kind_free_text": "crash-point enumeration: child processes of the harness binary run a scenario on a copy of a prepared chain directory and abort at the n-th cfg(grin_verif) crash point; a second child reopens and reports JSON; scenarios are generated by proptest strategies"},
            {"name": "fuzz", "path": "harness/fuzz", "serves_properties": ["C11"],
             "kind_free_text": "cargo-fuzz / libFuzzer targets (thorough tier of C11 only) that include the decoding core of src/props/c11.rs and carry the same oracle; built on demand with cargo +nightly fuzz build -O, not needed by setup_cmd or any quick tier"},
            {"name": "pbt", "path": "harness/src/engine", "serves_properties": [c["property_id"] for c in checks if c["engine"] != "fault"],
             "kind_free_text": "proptest 1.11 TestRunner used as a library (fixed seed from VERIF_SEED, no persistence, shrinking), plus exhaustive enumeration of small finite domains; reference models in harness/src; failing cases are written to out/<id>/ and replayed with ./check <id> --replay"},
        ],
        "checks": checks,
        "not_applicable": na,
        "notes": "All checks are property-based tests / fuzzing with explicit oracles (DESIGN.md). KNOWN_FINDINGS.json lists recorded findings; replays/<id>/ holds committed regression inputs replayed at the start of every run.",
    }
    json.dump(m, open(os.path.join(ROOT, "MANIFEST.json"), "w"), indent=1)
    # validate
    try:
        import jsonschema
        jsonschema.validate(m, json.load(open("/root/.vp/MANIFEST.schema.json")))
        print("MANIFEST.json valid;", len(checks), "checks,", len(na), "not claimed")
    except ImportError:
        print("jsonschema not importable; wrote MANIFEST.json unvalidated")

if __name__ == "__main__":
    main()
