#!/bin/bash
# tools/mutate.sh <ID> <patch-file> [tier]  — sensitivity run: apply a patch to
# /repo, run the check (expecting exit 1), restore /repo. Never leaves /repo dirty.
set -u
ID="$1"; PATCH="$(realpath "$2")"; TIER="${3:-quick}"
cd /repo || exit 2
if [ -n "$(git status --porcelain --untracked-files=no)" ]; then echo "/repo is dirty, refusing"; exit 2; fi
git apply "$PATCH" || { echo "patch does not apply"; exit 2; }
trap 'git -C /repo checkout -- . ' EXIT
cd /verif
./check "$ID" "$TIER"; RC=$?
echo "mutate: $ID $(basename "$PATCH") exit=$RC"
# evidence/ holds the records of clean-tree runs only: drop what the run against the modified tree wrote
git -C /verif checkout -- evidence/ 2>/dev/null
exit $RC
