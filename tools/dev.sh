#!/bin/bash
# tools/dev.sh <check args...> — development runs that do not touch /repo or /verif/evidence:
# syncs /verif's sources into /tmp/dev/verif (own target dir), whose path dependencies point at a
# scratch worktree of /repo's HEAD (/tmp/dev/repo), and runs ./check there. Used while seeded
# patches are being applied to /repo by tools/seeded*.sh.
set -e
mkdir -p /tmp/dev
[ -d /tmp/dev/repo ] || git -C /repo worktree add --detach /tmp/dev/repo HEAD >/dev/null
git -C /tmp/dev/repo checkout -q --detach "$(git -C /repo rev-parse HEAD)"
rsync -a --delete --exclude target --exclude out --exclude .git /verif/ /tmp/dev/verif/
sed -i 's#"/repo/#"/tmp/dev/repo/#' /tmp/dev/verif/harness/Cargo.toml /tmp/dev/verif/harness/fuzz/Cargo.toml
cd /tmp/dev/verif
exec ./check "$@"
