#!/bin/bash
# tools/seeded.sh <name> <worktree> <crate> <check-ids...>
# Confirms a seeded change in its scratch worktree (demo fails with it, passes
# without it; the crate's existing tests pass with it), stores it under
# /verif/seeded/<name>/ and runs the given checks against it in /repo (applied
# temporarily, always reverted).
set -u
NAME="$1"; WT="$2"; CRATE="$3"; shift 3
DEST=/verif/seeded/$NAME; mkdir -p "$DEST"
cp "$WT/SEEDED/patch.diff" "$DEST/patch.diff"
cp "$WT/SEEDED/seeded_demo.rs" "$DEST/seeded_demo.rs" 2>/dev/null
cp "$WT/SEEDED/NOTES.md" "$DEST/NOTES.md" 2>/dev/null
export CARGO_NET_OFFLINE=true
cd "$WT" || exit 2
echo "== demo WITH the change (must fail)"
cargo test --offline -p "$CRATE" --test seeded_demo > "$DEST/demo_with.log" 2>&1; WITH=$?
tail -3 "$DEST/demo_with.log"
echo "== demo WITHOUT the change (must pass)"
SRCDIFF=$(mktemp /tmp/seeded_src.XXXXXX)
git diff -- . ':!*/tests/seeded_demo.rs' ':!SEEDED' > $SRCDIFF
git apply -R $SRCDIFF || { echo "cannot revert"; exit 2; }
cargo test --offline -p "$CRATE" --test seeded_demo > "$DEST/demo_without.log" 2>&1; WITHOUT=$?
tail -3 "$DEST/demo_without.log"
git apply $SRCDIFF; rm -f $SRCDIFF
echo "== existing tests of $CRATE WITH the change"
cargo test --offline --no-fail-fast -p "$CRATE" > "$DEST/existing_tests_with.log" 2>&1
grep -E "^test result|FAILED|failed" "$DEST/existing_tests_with.log" | grep -v seeded_demo | sort | uniq -c | sort -rn | head -8
echo "demo_with_exit=$WITH demo_without_exit=$WITHOUT"
if [ -n "${CONFIRM_ONLY:-}" ]; then echo "$NAME demo_with=$WITH demo_without=$WITHOUT (confirmation only)" | tee "$DEST/result.txt"; exit 0; fi
cd /repo
if [ -n "$(git status --porcelain --untracked-files=no)" ]; then echo "/repo dirty"; exit 2; fi
RES=""
for ID in "$@"; do
  git apply "$DEST/patch.diff" || { echo "patch does not apply to /repo"; exit 2; }
  (cd /verif && ./check "$ID" quick > "$DEST/check_$ID.log" 2>&1); RC=$?
  git checkout -- .
  echo "check $ID exit=$RC: $(grep -m1 'signature=' $DEST/check_$ID.log | cut -c1-200)"
  RES="$RES $ID:$RC"
done
echo "$NAME demo_with=$WITH demo_without=$WITHOUT checks:$RES" | tee "$DEST/result.txt"
# evidence/ holds the records of clean-tree runs only: drop what the runs against a modified tree wrote
git -C /verif checkout -- evidence/ 2>/dev/null
