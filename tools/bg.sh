#!/bin/bash
# tools/bg.sh <tier> <seed> [<seed>...]  — for `vp run --with-repo -- tools/bg.sh thorough 1`.
# Runs every registered check of this snapshot of /verif against the snapshot of /repo's
# HEAD ($VP_RUN_REPO), so edits made to /repo meanwhile (seeded patches) do not disturb it.
# One line per check and seed; nothing it writes is evidence. IDS="C05 C07" restricts the checks.
TIER=${1:-quick}; shift
HERE="$(cd "$(dirname "$0")/.." && pwd)"
cd "$HERE" || exit 2
if [ -n "${VP_RUN_REPO:-}" ]; then sed -i "s#\"/repo/#\"$VP_RUN_REPO/#" harness/Cargo.toml harness/fuzz/Cargo.toml; fi
./check build || exit 2
RC=0
for SEED in "$@"; do
  export VERIF_SEED=$SEED
  for ID in ${IDS:-$(python3 -c "import json;print(' '.join(c['property_id'] for c in json.load(open('MANIFEST.json'))['checks']))")}; do
    S=$(date +%s); ./check $ID $TIER > out/bg_${ID}_$SEED.log 2>&1; E=$?
    echo "seed=$SEED $ID exit=$E $(( $(date +%s)-S ))s $(grep -c '^KNOWN-FINDING' out/bg_${ID}_$SEED.log) known $(grep -m1 '^VIOLATION' out/bg_${ID}_$SEED.log)"
    [ $E -ne 0 ] && RC=1 && cp -r out/$ID out/bg_fail_${ID}_$SEED 2>/dev/null
  done
done
exit $RC
