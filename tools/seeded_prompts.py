#!/usr/bin/env python3
"""tools/seeded_prompts.py <round-dir> [ids...] — writes one prompt per property for the authors of
independently seeded changes (fresh sub-agents). A prompt holds the property's text, the one-line
descriptions of the changes already studied for it (so that the new one differs), the worktree to
work in and the hand-over format expected by tools/seeded.sh. Nothing of the checks goes in."""
import json, os, sys, glob
RD = sys.argv[1]
IDS = sys.argv[2:]
props = {}
for l in open('/verif/properties.jsonl'):
    p = json.loads(l); props[p['id']] = p
earlier = {}
for m in sorted(glob.glob('/verif/seeded/*/meta.json')):
    d = json.load(open(m)); earlier.setdefault(d['property'], []).append((d['name'], d['change'], d['needs_to_manifest']))
os.makedirs(RD, exist_ok=True)
for pid in (IDS or sorted(props)):
    p = props[pid]
    wt = f"{RD}/{pid}"
    e = "\n".join(f"* `{n}`: {c} — needs: {need}" for n, c, need in earlier.get(pid, []))
    txt = f"""# Task: write one subtle, property-breaking change to mimblewimble/grin

You are working alone in a private scratch git worktree of the grin repository: `{wt}`
(a detached checkout of the pinned commit plus a few local commits). Work ONLY inside that
directory. Never read, write or run anything under `/repo` or `/verif`, and do not run `git commit`,
`git stash`, `git checkout` of other revisions or `git worktree`. The machine has no network:
always pass `--offline` to cargo and export `CARGO_NET_OFFLINE=true`. Other jobs share the
machine: use `cargo ... -j 6`.

## The property (this is all you are given about what is being studied)

**{p['id']} — {p['title']}**

Statement: {p['statement']}

Quantifier (what it ranges over): {p['quantifier']}

Why ordinary tests cannot settle it: {p['why_tests_cant']}

Code it is anchored in: {json.dumps(p['anchors'])}

## What to produce

A change to the grin source (one or a few small edits in `core/`, `chain/`, `store/`, `pool/`,
`p2p/`, `keychain/`, `util/` or `servers/`) that

1. still compiles (`cargo build --offline -j 6 -p <package>`), with and without
   `RUSTFLAGS="--cfg grin_verif"` — code under `#[cfg(grin_verif)]` is test instrumentation:
   leave those lines exactly as they are and do not rely on them;
2. leaves every EXISTING test of the package(s) you touched passing, unedited
   (`cargo test --offline -j 6 -p <package>`; packages: grin_core, grin_chain, grin_store,
   grin_pool, grin_p2p, grin_keychain, grin_util, grin_servers);
3. makes the property above FALSE for the real code — a genuine semantic break of what the
   statement promises, not a crash in unrelated code, not a change of a constant the statement
   does not mention, and not merely making the code slower;
4. needs something SPECIFIC to manifest: a particular interleaving, a crash or fault at a
   particular point, a multi-step sequence of operations, an unusual but legal input, a
   boundary value, a particular configuration (chain type, protocol version, archive mode, NRD
   flag), or two cooperating edits that each look fine alone. Ordinary use (mining a few blocks,
   sending a transaction, one round trip of a typical object) must NOT expose it. It should
   look like a plausible refactoring, optimisation or "simplification" a reviewer could wave through.

Changes already studied for this property — yours must differ from ALL of them in the function
touched AND in the mechanism, and where possible attack another clause of the statement:

{e if e else '(none yet)'}

Directions that have been under-used so far (take one if it fits, or find your own): error
paths in the middle of a multi-step operation (what is left behind after an early return);
helpers and caches shared between two callers where only one caller is affected; state that
needs a long or unusual history to go wrong (several reorganisations, compaction then restart
then reorganisation, many blocks, many entries); numeric boundaries (u64 / u32 limits, 1024-bit
chunks, page and batch sizes, exact equality at a threshold); behaviour that differs by
configuration (archive mode, protocol version 1/2/3, chain type, NRD enabled, fee base);
ordering assumptions (sorted inputs, hash order versus position order); cooperating edits in
two files.

## Demonstration

Write ONE new integration test file `<crate-dir>/tests/seeded_demo.rs` (e.g.
`chain/tests/seeded_demo.rs`) that FAILS with your change and PASSES without it, run by
`cargo test --offline -j 6 -p <package> --test seeded_demo`. It may use only what the package's
existing tests already use (its dev-dependencies, `tests/` helper modules of that crate). It must
be deterministic and finish in under two minutes. Confirm both directions yourself: run it with
the change, then `git stash`-free revert (`git diff -- . ':!*/tests/seeded_demo.rs' > /tmp/x.diff;
git apply -R /tmp/x.diff; run; git apply /tmp/x.diff`), and run the touched packages' existing tests
with the change.

## Hand-over (exact names)

Create the directory `{wt}/SEEDED/` with
* `patch.diff` — `git diff -- . ':!*/tests/seeded_demo.rs' ':!SEEDED'` (source change only, applies to the worktree's HEAD with `git apply`);
* `seeded_demo.rs` — a copy of your demonstration test;
* `NOTES.md` — first line `Package holding the demo: <package>`; then: the change (file, function,
  before/after), which clause of the statement it violates, exactly what it needs in order to
  manifest, why the existing tests do not notice, and the last lines of the three runs (demo with,
  demo without, existing tests with).
Leave the change and the demo applied in the worktree when you finish.

Budget: about 45 minutes. If your first idea turns out to be caught by an existing test or not to
break the statement, pick another. Your final message: the package name, the change in two
sentences, what it needs to manifest, and the three results.
"""
    open(f"{RD}/{pid}.prompt.md", 'w').write(txt)
    print(pid, len(txt))
