#!/bin/bash
# tools/run_all.sh [tier] [seed]  — runs every registered check on the current /repo tree,
# prints one line per check; used to refresh evidence/ after sensitivity or seeded runs.
cd /verif || exit 2
TIER=${1:-quick}; export VERIF_SEED=${2:-1}
./check build >/dev/null 2>&1
RC=0
for ID in $(python3 -c "import json;print(' '.join(c['property_id'] for c in json.load(open('MANIFEST.json'))['checks']))"); do
  S=$(date +%s); ./check $ID $TIER > out/run_all_$ID.log 2>&1; E=$?
  echo "$ID exit=$E $(( $(date +%s)-S ))s $(grep -c '^KNOWN-FINDING' out/run_all_$ID.log) known $(grep -m1 '^VIOLATION' out/run_all_$ID.log)"
  [ $E -ne 0 ] && RC=1
done
exit $RC
