#!/usr/bin/env python3
import json, sys, glob, jsonschema
s = json.load(open("/root/.vp/EVIDENCE.schema.json"))
for f in sorted(glob.glob("/verif/evidence/*.json")):
    e = json.load(open(f))
    try:
        jsonschema.validate(e, s); c = e["coverage"]
        print(f"{f}: ok eval={c['evaluations']} nontriv={c['distinct_nontrivial']} wall={e['wall_s']:.1f}s viol={e.get('violations')}")
    except Exception as ex:
        print(f"{f}: INVALID {str(ex)[:300]}")
