#!/usr/bin/env python3
"""Writes seeded/<name>/meta.json and seeded/README.md from the table below + result.txt files."""
import json, os, glob
ROOT='/verif/seeded'
T = {
 "C01-coinbase-rangeproof-skipped": ("C01", "TransactionBody::validate skips the range-proof check for coinbase-flagged outputs", "a block (not a transaction) with a coinbase-flagged output whose range proof is invalid, e.g. the reward split into (reward+X) with a valid proof and a 'negative' output -X: coinbase rule and all sums still balance", "initially MISSED by C01 (the block catalogue had no corruption of the coinbase output's proof); C01 was strengthened with CoinbaseProofFromOtherOutput / CoinbaseProofScalarFlip / CoinbaseNegativeSplit and now reports corrupt-block-body-accepted:CoinbaseProofFromOtherOutput"),
 "C02-compaction-forgets-head-spends": ("C02", "input_pos_to_rewind (compaction) reads each block's spent bitmap after stepping to the previous header, so the head block's spends are not protected", "a chain of >= 81 blocks, a compaction while the head block spends an output below the horizon whose sibling is also spent, then a reorg replacing that head block", "C02 (unspent-vanished) and C08 chain part (unspent-vanished)"),
 "C03-orphan-walk-stops-at-fork": ("C03", "check_orphans only continues to the next height when the reconnected orphan moved the head", "a side fork with >= 2 consecutive orphaned blocks whose first reconnected block does not overtake the head while a later one is the unique most-work tip", "C03 (accepted-block-missing)"),
 "C06-header-ext-not-discarded": ("C06", "header_extending no longer discards the header MMR backend on error", "a header (or header batch) that passes the per-header rules but fails the header-MMR root check after the working state was moved; the next valid block is then rejected with InvalidRoot", "C06 (valid-block-rejected: InvalidRoot after a rejected bad-prev_root header)"),
 "C08-leafset-discard-dirty-flag": ("C08", "LeafSet gets a dirty flag so discard() skips restoring the bitmap; add() does not set it", "a unit of work on a prunable backend that only appends leaves (no rewind, no removal) and is then discarded", "C08 store part (leaf-set: leaf_pos_iter lists a discarded leaf)"),
 "C13-maturity-against-header-chain": ("C13", "process_block fast path for blocks extending the body head rewinds only the txhashset extension, leaving the header extension on header_head's fork, so coinbase maturity is looked up on the header chain", "header_head on a different fork than the body chain (a heavier header whose body was rejected/never arrived) with a larger output_mmr_size at the cutoff height, then a block on the body head spending a coinbase that is immature on the body chain", "C13 (lock-rule-not-enforced: immature coinbase spend accepted)"),
}
rows=[]
for name,(prop,what,needs,caught) in T.items():
    d=os.path.join(ROOT,name)
    if not os.path.isdir(d): continue
    res=open(os.path.join(d,'result.txt')).read().strip() if os.path.exists(os.path.join(d,'result.txt')) else ''
    meta={"property":prop,"name":name,"change":what,"needs_to_manifest":needs,
          "confirmed":{"how":"tools/seeded.sh: in the author's scratch worktree the demonstration test was run with the change (must fail) and with the source change reverted (must pass), then the modified crate's existing test targets were run with the change; then the patch was applied to /repo, the listed checks were run (quick tier) and /repo was restored","result_line":res},
          "caught_by":caught,
          "files":["patch.diff","seeded_demo.rs","NOTES.md","demo_with.log","demo_without.log","existing_tests_with.log"]+sorted(os.path.basename(x) for x in glob.glob(d+'/check_*.log'))}
    json.dump(meta,open(os.path.join(d,'meta.json'),'w'),indent=1)
    rows.append((prop,name,needs,caught))
with open(os.path.join(ROOT,'README.md'),'w') as f:
    f.write("# Independently seeded changes\n\nEach change was written by a fresh sub-agent that saw only the property text and a private worktree; it compiles, passes the crate's existing tests and breaks the property only under the stated conditions. `tools/seeded.sh` re-confirms the demonstration and runs the checks against the change applied to /repo (always reverted).\n\n| property | change | needs | caught by |\n|---|---|---|---|\n")
    for r in sorted(rows): f.write("| %s | `%s` | %s | %s |\n" % r)
print(len(rows),"entries")
