#!/bin/bash
# tools/seeded_par.sh <name> <worktree> <check-ids...> — first-pass triage of a seeded change without
# touching /repo: a private copy of /verif's sources (own target dir) whose path dependencies point
# at the author's worktree (which holds the change), so that many changes can be checked at once.
# The verdict that is recorded comes from tools/seeded_check.sh (patch applied to /repo itself).
set -u
NAME="$1"; WT="$2"; shift 2
DEST=/verif/seeded/$NAME; mkdir -p "$DEST"
COPY="$WT.verif"
rsync -a --delete --exclude target --exclude out --exclude .git --exclude seeded "${VERIF_SRC:-/verif}/" "$COPY/"
sed -i "s#\"/repo/#\"$WT/#" "$COPY/harness/Cargo.toml" "$COPY/harness/fuzz/Cargo.toml"
cd "$COPY" || exit 2
RES=""
for ID in "$@"; do
  ./check "$ID" ${TIER:-quick} > "$DEST/par_$ID.log" 2>&1; RC=$?
  echo "par $NAME $ID exit=$RC: $(grep -m1 'signature=' "$DEST/par_$ID.log" | cut -c1-220)"
  RES="$RES $ID:$RC"
done
echo "par:$RES" > "$DEST/par_result.txt"
rm -rf "$COPY"
