#!/bin/bash
# tools/seeded_check.sh <name> <check-ids...> — runs the given checks (quick) against
# seeded/<name>/patch.diff applied to /repo; /repo is always restored.
set -u
NAME="$1"; shift
DEST=/verif/seeded/$NAME
cd /repo || exit 2
if [ -n "$(git status --porcelain --untracked-files=no)" ]; then echo "/repo dirty"; exit 2; fi
RES=""
for ID in "$@"; do
  git apply "$DEST/patch.diff" || { echo "patch does not apply to /repo"; exit 2; }
  (cd /verif && ./check "$ID" ${TIER:-quick} > "$DEST/check_$ID.log" 2>&1); RC=$?
  git checkout -- .
  echo "check $ID exit=$RC: $(grep -m1 'signature=' $DEST/check_$ID.log | cut -c1-220)"
  RES="$RES $ID:$RC"
done
echo "checks:$RES" | tee -a "$DEST/result.txt"
# evidence/ holds the records of clean-tree runs only: drop what the runs against a modified tree wrote
git -C /verif checkout -- evidence/ 2>/dev/null
